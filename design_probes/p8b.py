import logging, sys, collections
logging.disable(logging.CRITICAL)
from run1 import run
from pdb2pqr.ligand.mol2 import Mol2Molecule
m=Mol2Molecule(); m.read(open('/repo/tests/data/ethanol.mol2'))
src=[l for l in open('/repo/tests/data/1AJJ.pdb') if l.startswith(('ATOM','TER'))]
het=[]
n=9000
def hl(name,res,chain,num,x,y,z,el):
    global n; n+=1
    nm = name if len(name)==4 else " "+name.ljust(3)
    return "HETATM%5d %s %3s %1s%4d    %8.3f%8.3f%8.3f  1.00  0.00          %2s\n"%(n,nm,res,chain,num,x,y,z,el)
for a in m.atoms.values():
    het.append(hl(a.name,"LIG","A",500,a.x+60,a.y+60,a.z+60,a.type.split('.')[0]))
# other hetero group sharing names with ligand
names=list(m.atoms)
het.append(hl("C99","XYZ","A",501,80,80,80,"C"))
het.append(hl("ZN","ZN","A",502,90,80,80,"ZN"))
het.append(hl("O","HOH","A",503,100,80,80,"O"))
open('/tmp/probe/cplx.pdb','w').write("".join(src+het+["END\n"]))
out="/tmp/probe/cplx.pqr"
miss,pka,bio=run(["--ff=AMBER","--ligand=/repo/tests/data/ethanol.mol2","/tmp/probe/cplx.pdb",out])
lines=[l for l in open(out) if l.startswith(("ATOM","HETATM"))]
print("lig atom names", names)
print("written HETATM lines:"); print("".join(l for l in lines if l.startswith("HETATM")))
print("missed:", [(a.residue.name,a.name) for a in miss])
m.assign_parameters()
print("ligand params", [(a.name, round(a.charge,4), a.radius) for a in m.atoms.values()])
