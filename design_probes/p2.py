import logging, io, sys
logging.disable(logging.CRITICAL)
from pdb2pqr import pdb, io as pio, biomolecule as bm
from pdb2pqr.main import setup_molecule
src = open('/repo/tests/data/1AJJ.pdb').read().splitlines(True)
atoms = [l for l in src if l.startswith(('ATOM','HETATM'))]
print("coordinate records", len(atoms), "MODEL", sum(l.startswith('MODEL') for l in src), "END", [l for l in src if l.startswith('END')])
def count(lines, label):
    try:
        pl, el = pdb.read_pdb(io.StringIO("".join(lines)))
        d = pio.get_definitions()
        b,_,_ = setup_molecule(pl, d, None)
        print(label, "records", sum(isinstance(r,(pdb.ATOM,pdb.HETATM)) for r in pl), "bio atoms", len(b.atoms), "residues", len(b.residues), "chains", [ (c.chain_id, len(c.residues)) for c in b.chains], "err", el)
    except Exception as e:
        print(label, "EXC", type(e).__name__, e)
count(src, "pristine")
count(src+["END\n"], "END-twice")
count(src+["END   \n","END\n"], "END-thrice")
noend=[l for l in src if not l.startswith('END')]
count(noend, "no-END")
# END between residues
ai=[k for k,l in enumerate(src) if l.startswith('ATOM')]
k=None
for a,b in zip(ai,ai[1:]):
    if src[a][22:27]!=src[b][22:27] and a>ai[100]:
        k=b;break
count(src[:k]+["END\n"]+src[k:], "END-between-res")
# two models w/ END between
body=[l for l in src if l.startswith(('ATOM','HETATM','TER'))]
count(["MODEL        1\n"]+body+["ENDMDL\n","MODEL        2\n"]+body+["ENDMDL\n","END\n"], "2models")
count(["MODEL        1\n"]+body+["ENDMDL\n","END\n","MODEL        2\n"]+body+["ENDMDL\n","END\n"], "2models-END-between")
count(body[:200]+["MODEL        1\n"]+body[200:]+["ENDMDL\n","MODEL        2\n"]+body+["ENDMDL\n","END\n"], "atoms-before-MODEL1")
# waters HETATM altloc
