import logging, sys, itertools, random, os
logging.disable(logging.CRITICAL)
from run1 import run
def fields(path, ws):
    out=[]
    for l in open(path):
        if l.startswith(("ATOM","HETATM")):
            if ws: t=l.split(); out.append(tuple(t[-5:]))
            else: out.append((l[30:38].strip(),l[38:46].strip(),l[46:54].strip(),l[54:62].strip(),l[62:69].strip()))
    return out
rng=random.Random(0)
for f,ff in (("/repo/tests/data/1AJJ.pdb","AMBER"),("/repo/tests/data/1BX8.pdb","PARSE"),("/tmp/probe/v.pdb","CHARMM"),("/tmp/probe/cplx.pdb","TYL06")):
    base=[f"--ff={ff}"]
    run(base+[f,"/tmp/probe/o0.pqr"]); ref=fields("/tmp/probe/o0.pqr",False)
    bad=0
    for k in range(10):
        opts=[o for o in ["--whitespace","--keep-chain","--include-header","--pdb-output=/tmp/probe/o.pdb","--apbs-input=/tmp/probe/o.in"] if rng.random()<0.5]
        if rng.random()<0.7: opts.append("--ffout="+rng.choice(["AMBER","CHARMM","PARSE","TYL06","PEOEPB","SWANSON"]))
        run(base+opts+[f,"/tmp/probe/o1.pqr"])
        got=fields("/tmp/probe/o1.pqr","--whitespace" in opts)
        if got!=ref:
            bad+=1; 
            d=[(i,a,b) for i,(a,b) in enumerate(zip(ref,got)) if a!=b][:3]
            print("DIFF",f,opts,len(ref),len(got),d)
    # drop-water equivalence
    run(base+["--drop-water",f,"/tmp/probe/o2.pqr"])
    open("/tmp/probe/nowat.pdb","w").write("".join(l for l in open(f) if not (l.startswith(("ATOM","HETATM")) and l[17:20] in ("HOH","WAT"))))
    run(base+["/tmp/probe/nowat.pdb","/tmp/probe/o3.pqr"])
    print(f.split("/")[-1],ff,"option diffs",bad,"drop-water identical",open("/tmp/probe/o2.pqr").read()==open("/tmp/probe/o3.pqr").read(), "atoms",len(ref))
