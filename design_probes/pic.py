import sys; sys.path.insert(0,"/tmp/probe/deps")
import logging; logging.disable(logging.CRITICAL)
import icontract, numpy as np
from pdb2pqr import debump
class RigidBroken(Exception): pass
N={"n":0}
def coords_of(residue): return {a.name:tuple(a.coords) for a in residue.atoms}
def rigid(self, residue, anglenum, angle, OLD):
    N["n"]+=1
    names=residue.reference.dihedrals[anglenum].split()
    a1,a2=residue.get_atom(names[1]),residue.get_atom(names[2])
    for a in residue.atoms:
        o=np.array(OLD.c[a.name]); n=np.array(a.coords)
        if np.linalg.norm(o-n)>1e-9:
            for ax in (a1,a2):
                if abs(np.linalg.norm(o-np.array(OLD.c[ax.name]))-np.linalg.norm(n-np.array(ax.coords)))>1e-6: return False
    return True
debump.Debump.set_dihedral_angle = icontract.snapshot(coords_of, name="c")(icontract.ensure(rigid, error=RigidBroken)(debump.Debump.set_dihedral_angle))
from run1 import run
run(["--ff=AMBER","/tmp/probe/v.pdb","/tmp/probe/ic.pqr"])
print("contract evaluations", N)
