import logging, sys, numpy as np
logging.disable(logging.CRITICAL)
from pdb2pqr import io as pio, pdb, debump, biomolecule as bm
from pdb2pqr.main import setup_molecule
import gen, io
lines=gen.pdb_lines([("A",1,gen.build_peptide(["LYS","ALA","LYS"]))])
pl,_=pdb.read_pdb(io.StringIO("".join(lines)))
d=pio.get_definitions()
b,_,_=setup_molecule(pl,d,None)
b.set_termini(neutraln=False,neutralc=False); b.update_bonds()
b.add_hydrogens()
db=debump.Debump(b)
from pdb2pqr import cells
db.cells=cells.Cells(2); db.cells.assign_cells(b)
b.calculate_dihedral_angles(); b.set_donors_acceptors(); b.update_internal_bonds(); b.set_reference_distance()
for res in (b.residues[0], b.residues[2]):
    print(res, "dihedrals:", res.reference.dihedrals[:6])
    print("  refdist:", {a.name:a.refdistance for a in res.atoms})
    before={a.name:np.array(a.coords) for a in res.atoms}
    # find chi1 index
    idx=[i for i,dh in enumerate(res.reference.dihedrals) if dh.split()[:4]==["N","CA","CB","CG"]][0]
    db.set_dihedral_angle(res, idx, res.dihedrals[idx]+40.0)
    mv={a.name:round(float(np.linalg.norm(before[a.name]-np.array(a.coords))),3) for a in res.atoms}
    print("  moved:", {k:v for k,v in mv.items() if v>1e-6})
