import logging, numpy as np
logging.disable(logging.CRITICAL)
from run1 import run
import gen
def place_pair(seq1, seq2, d):
    r1=gen.build_peptide(seq1); r2=gen.build_peptide(seq2)
    sg=lambda r: next(x for n,at in r if n=="CYS" for a,x in at if a=="SG")
    cen=lambda r: np.mean([x for n,at in r for a,x in at],axis=0)
    u=sg(r1)-cen(r1); u/=np.linalg.norm(u)
    u2=sg(r2)-cen(r2); u2/=np.linalg.norm(u2)
    # rotation taking u2 -> -u
    v=np.cross(u2,-u); s=np.linalg.norm(v); c=float(np.dot(u2,-u))
    if s<1e-9: R=np.eye(3) if c>0 else -np.eye(3)+2*np.outer([1,0,0],[1,0,0])
    else:
        k=v/s; K=np.array([[0,-k[2],k[1]],[k[2],0,-k[0]],[-k[1],k[0],0]]); R=np.eye(3)+s*K+(1-c)*K@K
    t=sg(r1)+d*u-R@sg(r2)
    r2=[(n,[(a,R@x+t) for a,x in at]) for n,at in r2]
    return r1,r2
for d in (1.9,2.03,2.3,2.49,2.499,2.501,2.51,2.8,3.2):
    for order in (0,1):
        for chains in (("A","B"),("A","A"),(" "," ")):
            r1,r2=place_pair(["ALA","CYS","GLY"],["SER","ALA","CYS","ALA"],d)
            ch=[(chains[0],1,r1),(chains[1],1 if chains[0]!=chains[1] else 50,r2)]
            if order: ch=ch[::-1]
            open("/tmp/probe/ss.pdb","w").write("".join(gen.pdb_lines(ch)))
            # verify distance as written (3 decimals)
            try:
                miss,_,bio=run(["--ff=AMBER","/tmp/probe/ss.pdb","/tmp/probe/ss.pqr"])
                cys=[r for r in bio.residues if r.name in("CYS","CYX")]
                dd=np.linalg.norm(np.array(cys[0].get_atom("SG").coords)-np.array(cys[1].get_atom("SG").coords))
                st=[(r.ffname,bool(r.ss_bonded),r.has_atom("HG"),(r.ss_bonded_partner.residue is cys[1-i]) if r.ss_bonded_partner else None) for i,r in enumerate(cys)]
                exp = dd<2.5
                ok=all((s[0].endswith("CYX") and s[1] and not s[2] and s[3]) if exp else (s[0].endswith("CYS") and not s[1] and s[2]) for s in st)
                if not ok or (order==0 and chains==("A","B")): print(d,order,chains,"dist %.4f"%dd,st,"OK" if ok else "MISMATCH")
            except Exception as e: print(d,order,chains,"EXC",type(e).__name__,str(e.__cause__ or e)[:80])
