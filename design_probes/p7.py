import logging, io, os, sys, traceback
logging.disable(logging.CRITICAL)
from pdb2pqr.main import build_main_parser, main_driver
src=open('/repo/tests/data/1AJJ.pdb').read().splitlines(True)
atoms=[l for l in src if l.startswith(('ATOM','HETATM'))]
def write(name, lines):
    open(name,'w').write("".join(lines)); return name
def attempt(label, argv, inp):
    out='/tmp/probe/out_fail.pqr'
    open(out,'w').write("SENTINEL\n")
    st0=os.stat(out)
    try:
        a=build_main_parser().parse_args(argv+[inp,out])
        main_driver(a); res="OK"
    except SystemExit as e: res=f"SystemExit({e.code})"
    except BaseException as e: res=f"{type(e).__name__}: {str(e)[:70]}"
    cur=open(out).read() if os.path.exists(out) else None
    print(f"{label:28s} -> {res:90s} output {'UNTOUCHED' if cur=='SENTINEL\n' else ('MISSING' if cur is None else 'MODIFIED len=%d'%len(cur))}")
attempt("nonexistent", ["--ff=AMBER"], "/tmp/probe/nope.pdb")
attempt("empty file", ["--ff=AMBER"], write("/tmp/probe/empty.pdb", []))
attempt("only remarks", ["--ff=AMBER"], write("/tmp/probe/rem.pdb", ["REMARK hello\n"]))
attempt("neutraln amber", ["--ff=AMBER","--neutraln"], "/repo/tests/data/1AJJ.pdb")
attempt("ph 15", ["--ff=AMBER","--with-ph=15"], "/repo/tests/data/1AJJ.pdb")
attempt("userff no names", ["--userff=/repo/tests/data/custom-ff.dat"], "/repo/tests/data/1AJJ.pdb")
attempt("userff missing", ["--userff=/nope.dat","--usernames=/repo/tests/data/custom.names"], "/repo/tests/data/1AJJ.pdb")
attempt("ligand missing", ["--ff=AMBER","--ligand=/nope.mol2"], "/repo/tests/data/1AJJ.pdb")
# missing backbone: drop all CA
attempt("no CA atoms", ["--ff=AMBER"], write("/tmp/probe/noca.pdb", [l for l in src if not (l.startswith('ATOM') and l[12:16].strip()=='CA')]))
attempt("only CA atoms", ["--ff=AMBER"], write("/tmp/probe/onlyca.pdb", [l for l in src if not l.startswith('ATOM') or l[12:16].strip()=='CA']))
attempt("no N atoms in res 5", ["--ff=AMBER"], write("/tmp/probe/non.pdb", [l for l in src if not (l.startswith('ATOM') and l[12:16].strip() in('N','CA','C') and int(l[22:26])==10)]))
attempt("assign-only no H", ["--ff=AMBER","--assign-only"], "/repo/tests/data/1AJJ.pdb")
attempt("garbage coords", ["--ff=AMBER"], write("/tmp/probe/garb.pdb", [l[:30]+"   abcde"+l[38:] if i==10 else l for i,l in enumerate(atoms)]))
attempt("unknown residues only", ["--ff=AMBER"], write("/tmp/probe/unk.pdb", [l[:17]+"XYZ"+l[20:] for l in atoms]))
attempt("hetatm ligand only", ["--ff=AMBER"], write("/tmp/probe/het.pdb", ["HETATM    1  C1  LIG A   1       1.000   2.000   3.000  1.00  0.00           C\n"]))
attempt("bad names xml", ["--userff=/repo/tests/data/custom-ff.dat","--usernames=/repo/tests/data/1AJJ.pdb"], "/repo/tests/data/1AJJ.pdb")
attempt("bad userff", ["--userff=/repo/tests/data/1AJJ.pdb","--usernames=/repo/tests/data/custom.names"], "/repo/tests/data/1AJJ.pdb")
attempt("output dir missing", ["--ff=AMBER"], "/repo/tests/data/1AJJ.pdb")
