import logging, sys, types, pickle, hashlib, inspect
logging.disable(logging.CRITICAL)
from run1 import run
import pdb2pqr, pkgutil, importlib
mods=[importlib.import_module(m.name) for m in pkgutil.walk_packages(pdb2pqr.__path__,"pdb2pqr.")]
def fp_obj(o, depth=0, seen=None):
    seen=seen if seen is not None else set()
    if id(o) in seen or depth>6: return "<rec>"
    if isinstance(o,(int,float,str,bytes,bool,type(None))): return repr(o)
    if isinstance(o,(logging.Logger,logging.Filter,types.ModuleType,type)) or callable(o): return f"<{type(o).__name__}>"
    seen.add(id(o))
    if isinstance(o,dict): return "{"+",".join(f"{fp_obj(k,depth+1,seen)}:{fp_obj(v,depth+1,seen)}" for k,v in o.items())+"}"
    if isinstance(o,(list,tuple)): return "["+",".join(fp_obj(x,depth+1,seen) for x in o)+"]"
    if isinstance(o,(set,frozenset)): return "set("+",".join(sorted(fp_obj(x,depth+1,seen) for x in o))+")"
    if hasattr(o,"__dict__"): return type(o).__name__+fp_obj(vars(o),depth+1,seen)
    return f"<{type(o).__name__}>"
def fingerprint():
    out={}
    for m in mods:
        for k,v in vars(m).items():
            if k.startswith("__"): continue
            if isinstance(v,types.ModuleType): continue
            if isinstance(v,type) and v.__module__==m.__name__:
                for ck,cv in vars(v).items():
                    if ck.startswith("__"): continue
                    if inspect.isfunction(cv):
                        out[f"{m.__name__}.{k}.{ck}.__defaults__"]=fp_obj(cv.__defaults__)
                    elif not callable(cv) and not isinstance(cv,(property,classmethod,staticmethod)):
                        out[f"{m.__name__}.{k}.{ck}"]=fp_obj(cv)
            elif inspect.isfunction(v):
                if v.__module__==m.__name__: out[f"{m.__name__}.{k}.__defaults__"]=fp_obj(v.__defaults__)
            elif not callable(v):
                out[f"{m.__name__}.{k}"]=fp_obj(v)
    return out
a=fingerprint(); print("tracked items", len(a))
run(["--ff=AMBER","/repo/tests/data/1AJJ.pdb","/tmp/probe/s.pqr"])
run(["--ff=PARSE","--titration-state-method=propka","/repo/tests/data/1BX8.pdb","/tmp/probe/s.pqr"])
try: run(["--ff=AMBER","/tmp/probe/onlyca.pdb","/tmp/probe/s.pqr"])
except Exception: pass
run(["--ff=AMBER","--ligand=/repo/tests/data/ethanol.mol2","/tmp/probe/cplx.pdb","/tmp/probe/s.pqr"])
b=fingerprint()
ch=[k for k in a if a[k]!=b.get(k)]+[k for k in b if k not in a]
print("changed:", ch)
for k in ch[:5]: print(k, a.get(k,"")[:150], "->", b.get(k,"")[:150])
