"""Prototype synthetic peptide builder (independent of pdb2pqr code; reads AA.xml templates)."""
import xml.etree.ElementTree as ET, numpy as np, math, random
AA = "/repo/pdb2pqr/dat/AA.xml"
def load_templates(path=AA):
    t = {}
    for res in ET.parse(path).getroot().findall("residue"):
        name = res.findtext("name").strip()
        atoms = {}
        for a in res.findall("atom"):
            an = a.findtext("name").strip()
            atoms[an] = (np.array([float(a.findtext(c)) for c in "xyz"]), [b.text.strip() for b in a.findall("bond")])
        t[name] = atoms
    return t
TPL = load_templates()
def nerf(a, b, c, bond, angle, tors):
    angle, tors = math.radians(angle), math.radians(tors)
    bc = c - b; bc /= np.linalg.norm(bc)
    n = np.cross(b - a, bc); n /= np.linalg.norm(n)
    m = [bc, np.cross(n, bc), n]
    d2 = [-bond*math.cos(angle), bond*math.sin(angle)*math.cos(tors), bond*math.sin(angle)*math.sin(tors)]
    return c + d2[0]*m[0] + d2[1]*m[1] + d2[2]*m[2]
def kabsch(P, Q):
    """rotation R, translation t with R@P_i + t ~= Q_i"""
    Pc, Qc = P.mean(0), Q.mean(0)
    H = (P-Pc).T @ (Q-Qc)
    U, S, Vt = np.linalg.svd(H)
    d = np.sign(np.linalg.det(Vt.T @ U.T))
    R = Vt.T @ np.diag([1,1,d]) @ U.T
    return R, Qc - R @ Pc
def backbone(n, phipsi):
    N = np.array([0.0,0.0,0.0]); CA = np.array([1.458,0,0]); C = CA + 1.525*np.array([math.cos(math.radians(180-111.0)), math.sin(math.radians(180-111.0)),0])
    out = [(N,CA,C)]
    for i in range(1,n):
        psi = phipsi[i-1][1]; phi = phipsi[i][0]
        N2 = nerf(N,CA,C,1.329,116.2,psi)
        CA2 = nerf(CA,C,N2,1.458,121.7,180.0)
        C2 = nerf(C,N2,CA2,1.525,111.0,phi)
        out.append((N2,CA2,C2)); N,CA,C = N2,CA2,C2
    return out
def build_peptide(seq, phipsi=None, rng=None, hydrogens=False, oxt=True):
    rng = rng or random.Random(0)
    if phipsi is None: phipsi = [(-120.0,130.0)]*len(seq)
    bb = backbone(len(seq), phipsi)
    res = []
    for i,(name,(N,CA,C)) in enumerate(zip(seq,bb)):
        tpl = TPL[name]
        P = np.array([tpl[a][0] for a in ("N","CA","C")]); Q = np.array([N,CA,C])
        R,t = kabsch(P,Q)
        atoms = []
        for an,(xyz,_) in tpl.items():
            if an.startswith("H") and not hydrogens: continue
            atoms.append((an, R@xyz+t))
        # carbonyl O: place using psi to next N for planarity
        if i+1 < len(seq):
            Nn = bb[i+1][0]
            O = nerf(Nn, CA, C, 1.231, 120.5, 180.0) if False else None
            # O trans to next N across C: in plane, opposite side
            v1 = (CA-C)/np.linalg.norm(CA-C); v2=(Nn-C)/np.linalg.norm(Nn-C)
            o = -(v1+v2); o/=np.linalg.norm(o)
            atoms = [(an,(C+1.231*o) if an=="O" else xyz) for an,xyz in atoms]
        elif oxt:
            O = dict(atoms)["O"]
            v1 = (CA-C)/np.linalg.norm(CA-C); v2=(O-C)/np.linalg.norm(O-C)
            o = -(v1+v2); o/=np.linalg.norm(o)
            atoms.append(("OXT", C+1.25*o))
        res.append((name, atoms))
    return res
def pdb_lines(chains, start_serial=1):
    """chains: list of (chain_id, first_resnum, residues)"""
    out=[]; s=start_serial
    for cid, r0, residues in chains:
        for k,(name,atoms) in enumerate(residues):
            for an,xyz in atoms:
                nm = an if len(an)==4 else " "+an.ljust(3)
                el = an[0]
                out.append("ATOM  %5d %s %3s %1s%4d    %8.3f%8.3f%8.3f  1.00  0.00          %2s\n"%(s,nm,name,cid,r0+k,xyz[0],xyz[1],xyz[2],el)); s+=1
        out.append("TER\n")
    out.append("END\n")
    return out
if __name__=="__main__":
    import sys
    seq = sys.argv[1].split("-")
    open(sys.argv[2],"w").write("".join(pdb_lines([("A",1,build_peptide(seq))])))
