import logging,glob
logging.disable(logging.CRITICAL)
from pdb2pqr import psize, io as pio
for f in sorted(glob.glob('/repo/tests/data/*.pqr')):
    lines=open(f).read().splitlines()
    nat=sum(l.startswith(('ATOM','HETATM')) for l in lines)
    try:
        p=psize.Psize(); p.parse_lines(lines); p.set_all()
        # independent bbox via own reader
        ats=pio.read_pqr(open(f))
        mn=[min(getattr(a,c)-a.radius for a in ats) for c in 'xyz']; mx=[max(getattr(a,c)+a.radius for a in ats) for c in 'xyz']
        ok=all(abs(mn[i]-p.minlen[i])<1e-6 and abs(mx[i]-p.maxlen[i])<1e-6 for i in range(3))
        print(f.split('/')[-1][:60], nat, p.gotatom+p.gothet, "bbox-agree",ok, "hdr", sum(not l.startswith(('ATOM','HETATM','TER','END')) for l in lines))
    except Exception as e:
        print(f.split('/')[-1][:60],"EXC",type(e).__name__,str(e)[:60])
