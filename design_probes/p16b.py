import logging, glob, io, random, collections
logging.disable(logging.CRITICAL)
from pdb2pqr.ligand.mol2 import Mol2Molecule
def parse(path):
    txt=open(path).read().splitlines()
    i=next(k for k,l in enumerate(txt) if "@<TRIPOS>ATOM" in l); j=next(k for k,l in enumerate(txt) if "@<TRIPOS>BOND" in l)
    e=next((k for k,l in enumerate(txt) if "@<TRIPOS>SUBSTRUCTURE" in l), len(txt))
    atoms=[l.split() for l in txt[i+1:j] if l.strip()]; bonds=[l.split() for l in txt[j+1:e] if l.strip()]
    return txt[:i+1],atoms,bonds,txt[e:]
def emit(head,atoms,bonds,tail):
    s="\n".join(head)+"\n"
    for a in atoms: s+=" ".join(a)+"\n"
    s+="@<TRIPOS>BOND\n"
    for b in bonds: s+=" ".join(b)+"\n"
    s+="\n".join(tail)+"\n"
    return s
def charges(text):
    m=Mol2Molecule(); m.read(io.StringIO(text)); 
    f=sum(a.formal_charge for a in m.atoms.values())
    m.assign_parameters()
    return m, f
rng=random.Random(3)
files=sorted(set(glob.glob("/repo/tests/data/*.mol2")+glob.glob("/repo/examples/ligands/*.mol2")))
for f in files:
    try:
        head,atoms,bonds,tail=parse(f)
        m,formal=charges(emit(head,atoms,bonds,tail))
        tot=sum(a.charge for a in m.atoms.values())
        base={a.name:a.charge for a in m.atoms.values()}
        # rename
        ren={a[1]:"X%d"%k for k,a in enumerate(atoms)}
        atoms2=[[a[0],ren[a[1]]]+a[2:] for a in atoms]
        m2,_=charges(emit(head,atoms2,bonds,tail))
        dren=max(abs(m2.atoms[ren[n]].charge-base[n]) for n in base)
        # permute
        perm=list(range(len(atoms))); rng.shuffle(perm)
        newidx={old+1:new+1 for new,old in enumerate(perm)}
        atoms3=[[str(new+1)]+atoms[old][1:] for new,old in enumerate(perm)]
        bonds3=[[b[0],str(newidx[int(b[1])]),str(newidx[int(b[2])])]+b[3:] for b in bonds]
        rng.shuffle(bonds3); bonds3=[[str(k+1)]+b[1:] for k,b in enumerate(bonds3)]
        m3,_=charges(emit(head,atoms3,bonds3,tail))
        dperm=max(abs(m3.atoms[n].charge-base[n]) for n in base)
        ms=sorted(round(c,6) for c in base.values())==sorted(round(a.charge,6) for a in m3.atoms.values())
        print(f.split("/")[-1][:28].ljust(28),"n",len(atoms),"formal",formal,"sum %.10f"%tot,"rename-dev %.1e"%dren,"perm-dev %.1e"%dperm,"multiset-same",ms,"minrad",min(a.radius for a in m.atoms.values()))
    except Exception as e: print(f.split("/")[-1],"EXC",type(e).__name__,str(e)[:80])
