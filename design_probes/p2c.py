import logging, sys, numpy as np
logging.disable(logging.CRITICAL)
from run1 import run
import gen
def shift(res, v):
    return [(n,[(a,x+np.array(v)) for a,x in atoms]) for n,atoms in res]
def go(label, chains, opts=["--ff=AMBER"]):
    open("/tmp/probe/mc.pdb","w").write("".join(gen.pdb_lines(chains)))
    try:
        miss,_,bio=run(opts+["/tmp/probe/mc.pdb","/tmp/probe/mc.pqr"])
        tot=sum(r.charge for r in bio.residues)
        print(label, "chains",[(c.chain_id,len(c.residues)) for c in bio.chains][:8], "ffnames",[r.ffname for r in bio.residues][:14], "total",round(tot,3),"missed",len(miss))
    except BaseException as e: print(label,"EXC",type(e).__name__, str(e.__cause__ or e)[:100])
p=lambda seq: gen.build_peptide(seq.split("-"))
go("1 chain", [("A",1,p("ALA-GLY-SER"))])
go("2 chains same id TER", [("A",1,p("ALA-GLY-SER")),("A",1,shift(p("LYS-GLY-ASP"),[0,0,20]))])
go("2 chains same id cont numbering", [("A",1,p("ALA-GLY-SER")),("A",4,shift(p("LYS-GLY-ASP"),[0,0,20]))])
go("2 chains blank id", [(" ",1,p("ALA-GLY-SER")),(" ",1,shift(p("LYS-GLY-ASP"),[0,0,20]))])
go("3 chains A B blank", [("A",1,p("ALA-GLY-SER")),("B",1,shift(p("LYS-GLY-ASP"),[0,0,20])),(" ",1,shift(p("GLU-GLY-ASP"),[0,0,40]))])
go("30 chains blank", [(" ",1,shift(p("ALA-GLY-SER"),[0,0,20*i])) for i in range(30)])
go("70 chains blank", [(" ",1,shift(p("ALA-GLY-SER"),[0,0,20*i])) for i in range(70)])
go("70 chains ids cycling", [("ABCDEFGHIJKLMNOPQRSTUVWXYZabcdefghijklmnopqrstuvwxyz0123456789"[i%62],1,shift(p("ALA-GLY-SER"),[0,0,20*i])) for i in range(70)])
go("neg numbering", [("A",-5,p("ALA-GLY-SER-ALA-ALA-ALA-ALA-LYS"))])
go("single residue chain", [("A",1,p("ALA"))])
go("two single residue chains", [("A",1,p("ALA")),("B",1,shift(p("GLY"),[0,0,20]))])
