import logging, sys, os, random, time, collections
logging.disable(logging.CRITICAL)
from pdb2pqr.main import build_main_parser, main_driver
import pdb2pqr.main as M
OUT="/tmp/probe/fp_out.pqr"
events=[]
def audit(ev, args):
    if ev=="open" and isinstance(args[0],(str,bytes,os.PathLike)) and os.path.abspath(os.fsdecode(args[0]))==OUT:
        events.append(("open",args[1],state["stage"]))
sys.addaudithook(audit)
state={"stage":"pre","count":0,"target":None,"armed":False,"where":None}
orig_print=M.print_pqr
def print_pqr(*a,**k):
    state["stage"]="print_pqr"; state["armed"]=False
    return orig_print(*a,**k)
M.print_pqr=print_pqr
class Injected(ValueError): pass
mon=sys.monitoring; TOOL=mon.DEBUGGER_ID
mon.use_tool_id(TOOL,"vf")
def on_line(code, line):
    if not state["armed"] or "/repo/pdb2pqr/" not in code.co_filename: return mon.DISABLE if "/repo/pdb2pqr/" not in code.co_filename else None
    state["count"]+=1
    if state["count"]==state["target"]:
        state["armed"]=False; state["where"]=(code.co_filename.split("/")[-1],code.co_name,line)
        raise Injected(f"failpoint {state['where']}")
mon.register_callback(TOOL, mon.events.LINE, on_line)
argv=["--ff=AMBER","/repo/tests/data/1A1P.pdb",OUT]
def once(target):
    open(OUT,"w").write("SENTINEL\n"); events.clear()
    state.update(stage="run",count=0,target=target,armed=True,where=None)
    mon.set_events(TOOL, mon.events.LINE); mon.restart_events()
    t=time.time()
    try:
        main_driver(build_main_parser().parse_args(argv)); res="OK"
    except Injected as e: res="Injected"
    except BaseException as e: res=type(e).__name__+"("+type(e.__cause__).__name__+")"
    finally:
        mon.set_events(TOOL, 0)
    return res, state["count"], time.time()-t, open(OUT).read()=="SENTINEL\n", list(events)
res,total,dt,untouched,ev=once(None)
print("dry run:",res,"line events",total,"time %.2f"%dt,"events",ev)
rng=random.Random(0); c=collections.Counter(); wh=collections.Counter()
for i in range(40):
    tgt=rng.randrange(1,total)
    res,n,dt,untouched,ev=once(tgt)
    c[(res,untouched,tuple(e[0] for e in ev))]+=1; wh[state["where"][0] if state["where"] else None]+=1
print(c); print(wh)
