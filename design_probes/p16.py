import logging, sys, collections, numpy as np
logging.disable(logging.CRITICAL)
from run1 import run
import gen
AA20="ALA ARG ASN ASP CYS GLN GLU GLY HIS ILE LEU LYS MET PHE PRO SER THR TRP TYR VAL".split()
FORMAL={"ARG":1,"LYS":1,"ASP":-1,"GLU":-1}
def inputs(path):
    d={}
    for l in open(path):
        if l.startswith("ATOM"):
            d[(l[21],int(l[22:26]),l[12:16].strip())]=np.array([float(l[30:38]),float(l[38:46]),float(l[46:54])])
    return d
issues=collections.Counter(); ex={}
for ff in ["AMBER","CHARMM","PARSE","TYL06","PEOEPB","SWANSON"]:
  for R in AA20:
    seq=[R,"ALA",R,"ALA",R]
    p=f"/tmp/probe/t_{R}.pdb"; open(p,"w").write("".join(gen.pdb_lines([("A",1,gen.build_peptide(seq))])))
    inp=inputs(p)
    try:
        miss,_,bio=run([f"--ff={ff}",p,"/tmp/probe/t.pqr"])
    except Exception as e:
        issues[(ff,"EXC",type(e).__name__)]+=1; ex[(ff,"EXC",type(e).__name__)]=(R,str(e.__cause__ or e)[:100]); continue
    if miss: issues[(ff,"missed")]+=1; ex[(ff,"missed")]=(R,[(a.residue.ffname,a.name) for a in miss][:6])
    for i,res in enumerate(bio.residues):
        exp=FORMAL.get(res.name,0)+(1 if i==0 else 0)+(-1 if i==4 else 0)
        if res.name=="HIS" and res.ffname.endswith("HIP"): exp+=1
        if abs(res.charge-exp)>1e-3:
            k=(ff,"charge",res.ffname); issues[k]+=1; ex[k]=(res.charge,exp)
        names=[a.name for a in res.atoms]
        if any(n.endswith("FLIP") or n.startswith("LP") for n in names): issues[(ff,"temp",res.ffname)]+=1
        if len(set(names))!=len(names): issues[(ff,"dup",res.ffname)]+=1
        refnames=set(n for n in res.reference.map if n not in("N+1","C-1"))
        if set(names)!=refnames:
            k=(ff,"atomset",res.ffname); issues[k]+=1; ex[k]=(sorted(set(names)-refnames),sorted(refnames-set(names)))
        for a in res.atoms:
            key=(a.chain_id if False else "A",a.res_seq,a.name)
            if not a.added and key in inp:
                dd=np.linalg.norm(inp[key]-np.array(a.coords))
                if dd>1e-3:
                    k=("moved",res.name,a.name); issues[k]+=1; ex[k]=round(float(dd),3)
            if a.name.startswith("H"):
                b=[x for x in a.bonds if not x.name.startswith("H")]
                if len(a.bonds)!=1: issues[(ff,"Hbonds",res.ffname,a.name,len(a.bonds))]+=1
                else:
                    dl=np.linalg.norm(np.array(a.coords)-np.array(a.bonds[0].coords))
                    if not 0.85<dl<1.15:
                        k=(ff,"Hlen",res.ffname,a.name); issues[k]+=1; ex[k]=round(float(dl),3)
for k,v in sorted(issues.items(),key=str): print(k,v,ex.get(k))
