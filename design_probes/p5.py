import logging, io, sys
logging.disable(logging.CRITICAL)
from pdb2pqr import cif, pdb
# 1) real file
pl, el = cif.read_cif(open('/repo/tests/data/1FAS.cif'))
at=[r for r in pl if isinstance(r,(pdb.ATOM,pdb.HETATM))]
print("1FAS.cif records", len(pl), "atoms", len(at), "err", el)
print(at[0].original_text); print(at[-1].original_text)
# 2) minimal cif with only atom_site
def mkcif(rows, extra=""):
    s="data_TEST\n#\n"+extra+"loop_\n"
    cols=["group_PDB","id","type_symbol","label_atom_id","label_alt_id","label_comp_id","label_asym_id","label_entity_id","label_seq_id","pdbx_PDB_ins_code","Cartn_x","Cartn_y","Cartn_z","occupancy","B_iso_or_equiv","pdbx_formal_charge","auth_seq_id","auth_comp_id","auth_asym_id","auth_atom_id","pdbx_PDB_model_num"]
    for c in cols: s+="_atom_site.%s\n"%c
    for r in rows: s+=" ".join(str(x) for x in r)+"\n"
    s+="#\n"
    return s
rows=[["ATOM",1,"N","N",".","ALA","A",1,1,"?","1.000","2.000","3.000","1.00","10.00","?",1,"ALA","A","N",1],
      ["ATOM",2,"C","CA",".","ALA","A",1,1,"?","2.000","2.000","3.000","1.00","10.00","?",1,"ALA","A","CA",1]]
try:
    pl, el = cif.read_cif(io.StringIO(mkcif(rows)))
    print("minimal", [r.original_text for r in pl], el)
except Exception as e:
    import traceback; traceback.print_exc()
