import logging, sys, collections, numpy as np
logging.disable(logging.CRITICAL)
from run1 import run
import pdb2pqr.quatfit as Q
from pdb2pqr import aa, na
import gen
stats=collections.Counter(); ex={}
last={}
orig_fc=Q.find_coordinates
def fc(numpoints, refcoords, defcoords, defatomcoords):
    res=orig_fc(numpoints, refcoords, defcoords, defatomcoords)
    P=np.array(defcoords[:numpoints],float); S=np.array(refcoords[:numpoints],float)
    stats["fit",numpoints]+=1
    if numpoints>=3:
        # conditioning: area of template triangle
        area=np.linalg.norm(np.cross(P[1]-P[0],P[2]-P[0]))/2
        R,t=gen.kabsch(P,S)
        img=R@np.array(defatomcoords,float)+t
        dev=float(np.linalg.norm(img-np.array(res)))
        resid=np.linalg.norm((P@R.T+t)-S,axis=1)
        if dev>1e-6:
            stats["KABSCH-DISAGREE"]+=1; ex["KABSCH-DISAGREE"]=(dev,area,resid.tolist())
        stats["maxdev"]=max(stats["maxdev"],int(dev*1e12))
        last["ev"]=(P,S,np.array(defatomcoords,float),np.array(res,float),resid)
    else:
        last["ev"]=None
    return res
Q.find_coordinates=fc
def wrap_create(cls):
    orig=cls.create_atom
    def create_atom(self, atomname, newcoords, *a, **k):
        r=orig(self, atomname, newcoords, *a, **k)
        ev=last.get("ev")
        stats["create"]+=1
        if ev is not None and np.allclose(ev[3],np.array(newcoords,float),atol=0,rtol=0):
            P,S,x,X,resid=ev
            stats["create-linked"]+=1
            for i in range(len(P)):
                dt=np.linalg.norm(x-P[i]); da=np.linalg.norm(X-S[i])
                if abs(dt-da)>resid[i]+1e-6:
                    stats["BOUND-FAIL"]+=1; ex["BOUND-FAIL"]=(str(self),atomname,dt,da,resid[i])
                stats["max_resid_e3"]=max(stats["max_resid_e3"],int(resid[i]*1000))
        last["ev"]=None
        return r
    cls.create_atom=create_atom
for c in (aa.Amino, na.Nucleic, aa.WAT): wrap_create(c)
for f in sys.argv[1:]:
    stats.clear(); ex.clear()
    run(["--ff=AMBER",f,"/tmp/probe/c5.pqr"])
    print(f, dict(stats)); 
    for k,v in ex.items(): print("   ",k,v)
