import logging, sys, collections, numpy as np, traceback
logging.disable(logging.CRITICAL)
from run1 import run
from pdb2pqr import cells as C
stats=collections.Counter(); ex={}
orig_get=C.Cells.get_near_cells; orig_add=C.Cells.add_cell; orig_rm=C.Cells.remove_cell; orig_init=C.Cells.__init__
def key_of(self,a):
    s=self.cellsize
    f=lambda x: (int(x)-1)//s*s if x<0 else int(x)//s*s
    return (f(a.x),f(a.y),f(a.z))
def caller():
    import inspect
    fr=inspect.stack()[2:5]
    return ">".join(f.function for f in fr)
def get(self, atom):
    res=orig_get(self,atom)
    stats["queries",self.cellsize]+=1
    if atom.cell is None:
        stats["query-unregistered",self.cellsize]+=1; ex["query-unregistered",self.cellsize]=(str(atom.residue),atom.name,caller()); return res
    reg=[a for lst in self.cellmap.values() for a in lst]
    if len(set(map(id,reg)))!=len(reg): stats["dup-registration",self.cellsize]+=1
    rs=set(map(id,res))
    P=np.array([[a.x,a.y,a.z] for a in reg]); d=np.linalg.norm(P-np.array([atom.x,atom.y,atom.z]),axis=1)
    for a,dd in zip(reg,d):
        if a is atom: continue
        live = a.residue.map.get(a.name) is a
        if dd<self.cellsize and id(a) not in rs:
            k=("MISS",self.cellsize,"live" if live else "ghost"); stats[k]+=1; ex[k]=(str(atom.residue),atom.name,str(a.residue),a.name,round(float(dd),2),a.cell,key_of(self,a),atom.cell,key_of(self,atom),caller())
    for a in res:
        if a.residue.map.get(a.name) is not a:
            k=("GHOST-returned",self.cellsize); stats[k]+=1; ex[k]=(str(a.residue),a.name,caller())
    # stale
    if key_of(self,atom)!=atom.cell:
        k=("query-atom-stale",self.cellsize); stats[k]+=1; ex[k]=(str(atom.residue),atom.name,caller())
    return res
C.Cells.get_near_cells=get
for f in sys.argv[1:]:
    stats.clear(); ex.clear()
    miss,_,bio=run(["--ff=AMBER",f,"/tmp/probe/c.pqr"])
    print(f)
    for k,v in sorted(stats.items(),key=str): print("  ",k,v,ex.get(k))
