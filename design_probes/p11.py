import logging, sys, hashlib
logging.disable(logging.CRITICAL)
from run1 import run
def h(p): return hashlib.sha1(open(p,'rb').read()).hexdigest()[:12]
A=["--ff=AMBER","/repo/tests/data/1AJJ.pdb","/tmp/probe/d1.pqr"]
B=["--ff=PARSE","--titration-state-method=propka","--with-ph=4","/repo/tests/data/1BX8.pdb","/tmp/probe/d2.pqr"]
C=["--ff=CHARMM","--ffout=AMBER","--whitespace","/repo/tests/data/1K1I.pdb","/tmp/probe/d3.pqr"]
seq=[A,B,A,C,B,"fail",A,C,B]
out=[]
for s in seq:
    if s=="fail":
        try: run(["--ff=AMBER","/tmp/probe/onlyca.pdb","/tmp/probe/df.pqr"])
        except Exception as e: out.append("fail:"+type(e).__name__)
        continue
    run(s); out.append(h(s[-1]))
print(out)
