import logging, sys, collections, numpy as np, itertools
logging.disable(logging.CRITICAL)
from run1 import run
def inputs(path):
    d={}
    model=0
    for l in open(path):
        if l.startswith("MODEL"):
            model+=1
            if model>1: break
        if l.startswith(("ATOM","HETATM")):
            k=(l[21].strip(),int(l[22:26]),l[26].strip(),l[12:16].strip())
            if k not in d: d[k]=np.array([float(l[30:38]),float(l[38:46]),float(l[46:54])])
    return d
for f in sys.argv[1:]:
  for opts in (["--ff=AMBER"],["--ff=PARSE","--nodebump"],["--ff=AMBER","--noopt"]):
    inp=inputs(f)
    miss,_,bio=run(opts+[f,"/tmp/probe/c4.pqr"])
    st=collections.Counter(); ex={}
    for res in bio.residues:
        pairs=[]
        heavy=[a for a in res.atoms if not a.added and not a.name.startswith("H")]
        moved=[]
        for a in heavy:
            k=(a.chain_id,a.res_seq,a.ins_code,a.name)
            if k not in inp:
                st["nokey"]+=1; ex["nokey"]=k; continue
            d=np.linalg.norm(inp[k]-np.array(a.coords))
            if d>1e-3:
                moved.append((a.name,round(float(d),2)))
                if a.name in ("N","CA","C","O","OXT","CB"): st["BACKBONE-moved",res.name,a.name]+=1
        if moved:
            st["res-moved",res.name]+=1
            # bond/angle preservation
            hm={a.name:a for a in heavy}
            for a in heavy:
                for b in a.bonds:
                    if b.name in hm and hm[b.name] is b and a.name<b.name:
                        ka=(a.chain_id,a.res_seq,a.ins_code,a.name); kb=(b.chain_id,b.res_seq,b.ins_code,b.name)
                        if ka in inp and kb in inp:
                            d0=np.linalg.norm(inp[ka]-inp[kb]); d1=np.linalg.norm(np.array(a.coords)-np.array(b.coords))
                            if abs(d0-d1)>2e-3: st["BONDLEN-changed",res.name,a.name,b.name]+=1; ex["BONDLEN-changed",res.name,a.name,b.name]=(round(d0,3),round(d1,3),str(res))
                # angles: pairs of bonds at a
                nb=[b for b in a.bonds if b.name in hm and hm[b.name] is b]
                for b,c in itertools.combinations(nb,2):
                    ks=[(x.chain_id,x.res_seq,x.ins_code,x.name) for x in (a,b,c)]
                    if all(k in inp for k in ks):
                        d0=np.linalg.norm(inp[ks[1]]-inp[ks[2]]); d1=np.linalg.norm(np.array(b.coords)-np.array(c.coords))
                        if abs(d0-d1)>3e-3: st["ANGLE-changed",res.name,b.name,a.name,c.name]+=1; ex["ANGLE-changed",res.name,b.name,a.name,c.name]=(round(d0,3),round(d1,3),str(res))
    print(f.split('/')[-1],opts, {k:v for k,v in st.items() if k[0] not in ("res-moved",)}, "moved residues:", sum(v for k,v in st.items() if k[0]=="res-moved"), dict((k[1],v) for k,v in st.items() if k[0]=="res-moved"))
    for k,v in ex.items(): print("    ",k,v)
