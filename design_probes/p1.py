import logging, io, sys
logging.disable(logging.CRITICAL)
from pdb2pqr import pdb, io as pio, biomolecule as bm
from pdb2pqr.main import setup_molecule
src = open('/repo/tests/data/1A1P.pdb').read().splitlines(True)
atoms = [l for l in src if l.startswith(('ATOM','HETATM'))]
print("coordinate records", len(atoms))
def count(lines, label):
    try:
        pl, el = pdb.read_pdb(io.StringIO("".join(lines)))
        d = pio.get_definitions()
        b,_,_ = setup_molecule(pl, d, None)
        print(label, "records", sum(isinstance(r,(pdb.ATOM,pdb.HETATM)) for r in pl), "bio atoms", len(b.atoms), "residues", len(b.residues), "err", el)
    except Exception as e:
        print(label, "EXC", type(e).__name__, e)
count(src, "pristine")
# blank line in middle of atoms
i = next(k for k,l in enumerate(src) if l.startswith('ATOM')) + 50
count(src[:i]+["\n"]+src[i:], "blank-line-mid")
count(src[:i]+["   \n"]+src[i:], "space-line-mid")
count([l.rstrip("\n")+"\r\n" for l in src], "crlf")
count(src[:i]+["END\n"]+src[i:], "END-mid")
count(src+["END\n"], "END-twice")
count(["END\n"]+src, "END-first")
count(src[:i]+["FOOBAR junk\n"]+src[i:], "junk-mid")
count(src[:i]+["TER\n"]+src[i:], "TER-mid")
count([l[:54]+"\n" if l.startswith(("ATOM","HETATM")) else l for l in src], "short54")
count([l[:60]+"\n" if l.startswith(("ATOM","HETATM")) else l for l in src], "short60")
count([" "+l for l in src], "leading-space")
