"""Independent reference model of DAT + .names resolution (prototype)."""
import re, xml.etree.ElementTree as ET
def parse_dat(path):
    m={}
    for line in open(path, encoding="utf-8"):
        if line.startswith("#"): continue
        f=line.split()
        if not f: continue
        res,atom,q,r=f[0],f[1],float(f[2]),float(f[3])
        m.setdefault(res,{})[atom]=(q,r,res,atom)
    return m
def apply_names(m, names_path, canonical):
    root=ET.parse(names_path).getroot()
    for sec in root.findall("residue"):
        pat=sec.findtext("name").strip()
        use=sec.findtext("useresname")
        rx=re.compile(pat+"$")
        if use is not None:
            use=use.strip()
            for cname in list(canonical):
                mo=rx.match(cname)
                if not mo: continue
                if "$group" in use:
                    src=use.replace("$group", mo.group(1))
                    if src not in m: continue
                else:
                    src=use
                    if src not in m: raise KeyError(src)
                tgt=m.setdefault(cname,{})
                for an,val in list(m[src].items()): tgt[an]=val
        aliases=[(a.findtext("name").strip(), a.findtext("useatomname").strip()) for a in sec.findall("atom")]
        if not aliases: continue
        # the real handler stores aliases in a dict keyed by new name: later duplicates overwrite earlier
        amap={}
        for new,old in aliases: amap[new]=old
        for rname in list(m):
            if not rx.match(rname): continue
            for new,old in amap.items():
                if old in m[rname]: m[rname][new]=m[rname][old]
    return m
def canonical_names():
    import copy
    names=[]
    for f in ("AA.xml","NA.xml"):
        for r in ET.parse("/repo/pdb2pqr/dat/"+f).getroot().findall("residue"): names.append(r.findtext("name").strip())
    # patched variants
    for p in ET.parse("/repo/pdb2pqr/dat/PATCHES.xml").getroot().findall("patch"):
        pname=p.findtext("name").strip(); applyto=p.findtext("applyto").strip(); newname=(p.findtext("newname") or "").strip()
        if newname:
            for n in list(names):
                if re.compile(applyto).match(n):
                    nn=newname.replace("*",n)
                    if nn not in names: names.append(nn)
        if applyto in names and pname not in names: names.append(pname)
    return names
if __name__=="__main__":
    import logging; logging.disable(logging.CRITICAL)
    from pdb2pqr import io as pio, forcefield
    d=pio.get_definitions()
    can=canonical_names()
    print("canonical", len(can), "definition.map", len(d.map), "diff", set(can)^set(d.map))
    for ff in ["AMBER","CHARMM","PARSE","TYL06","PEOEPB","SWANSON"]:
        ref=apply_names(parse_dat(f"/repo/pdb2pqr/dat/{ff}.DAT"), f"/repo/pdb2pqr/dat/{ff}.names", list(d.map))
        F=forcefield.Forcefield(ff.lower(), d, None)
        nd=0; n=0
        for r in set(ref)|set(F.map):
            ra=ref.get(r,{}); fa=F.map[r].atoms if r in F.map else {}
            for a in set(ra)|set(fa):
                n+=1
                x=ra.get(a); y=fa.get(a)
                if x is None or y is None or (x[0],x[1],x[2],x[3])!=(y.charge,y.radius,y.resname,y.name):
                    nd+=1
                    if nd<5: print("   DIFF",ff,r,a,x,(y.charge,y.radius,y.resname,y.name) if y else None)
        print(ff,"entries",n,"diffs",nd)
