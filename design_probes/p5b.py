import logging, io, sys
logging.disable(logging.CRITICAL)
from pdb2pqr import cif, pdb
import pdbx
pl, el = cif.read_cif(open('/repo/tests/data/1FAS.cif'))
at=[r for r in pl if isinstance(r,(pdb.ATOM,pdb.HETATM))]
a=at[0]
print(repr(a.original_text))
print(vars(a))
d=pdbx.load(open('/repo/tests/data/1FAS.cif'))
o=d[0].get_object("atom_site")
print(repr(o.get_value("label_alt_id",0)), repr(o.get_value("pdbx_formal_charge",0)), repr(o.get_value("pdbx_PDB_ins_code",0)), repr(o.get_value("Cartn_x",0)), pdbx.__version__ if hasattr(pdbx,'__version__') else '')
