import logging, io, collections
logging.disable(logging.CRITICAL)
from pdb2pqr import pdb, io as pio
from pdb2pqr.main import setup_molecule
def colread(text):
    seen=collections.OrderedDict(); model=0
    for l in text.splitlines():
        if l.startswith("MODEL"):
            model+=1
            if model>1: break
        if l.startswith(("ATOM  ","HETATM")):
            k=(l[21].strip(),int(l[22:26]),l[26].strip(),l[12:16].strip())
            if k not in seen: seen[k]=(l[17:20].strip(),float(l[30:38]),float(l[38:46]),float(l[46:54]))
    return seen
import gen
# synthetic with altlocs interleaved and blocked, ins codes, hetatm
res=gen.build_peptide(["SER","LYS","ASN","GLY"])
lines=[]; s=1
for k,(name,atoms) in enumerate(res):
    rn=10 if k<2 else 11; ic=["","A","",""][k]
    for an,x in atoms:
        nm=an if len(an)==4 else " "+an.ljust(3)
        alts=[" "] if not (name=="LYS" and an in("CG","CD","CE","NZ")) else ["A","B"]
        for j,al in enumerate(alts):
            y=x+j*0.4
            lines.append("ATOM  %5d %s%s%3s %1s%4d%1s   %8.3f%8.3f%8.3f  0.50  0.00          %2s\n"%(s,nm,al,name,"A",rn,ic or " ",y[0],y[1],y[2],an[0])); s+=1
lines+=["TER\n","HETATM%5d  O  AHOH A 100      30.000  30.000  30.000  0.50  0.00           O\n"%s,"HETATM%5d  O  BHOH A 100      30.500  30.000  30.000  0.50  0.00           O\n"%(s+1),"END\n"]
txt="".join(lines)
exp=colread(txt)
pl,el=pdb.read_pdb(io.StringIO(txt)); b,_,_=setup_molecule(pl,pio.get_definitions(),None)
got={(a.chain_id,a.res_seq,a.ins_code,a.name):(a.res_name,a.x,a.y,a.z) for a in b.atoms}
print("expected",len(exp),"got",len(got),"len(b.atoms)",len(b.atoms),"missing",[k for k in exp if k not in got][:5],"extra",[k for k in got if k not in exp][:5], "coord mismatch",[k for k in exp if k in got and (abs(exp[k][1]-got[k][1])>1e-9)][:5])
print([ (str(r),len(r.atoms)) for r in b.residues])
