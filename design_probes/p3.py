import logging
logging.disable(logging.CRITICAL)
from pdb2pqr.structures import Atom
def mk(**kw):
    a=Atom(); a.type="ATOM"; a.serial=1; a.name="CA"; a.res_name="ALA"; a.chain_id="A"; a.res_seq=1; a.ins_code=""; a.x=1.0;a.y=2.0;a.z=3.0; a.ffcharge=-0.5; a.radius=1.5
    for k,v in kw.items(): setattr(a,k,v)
    return a
def ws(line):
    return line[0:6]+" "+line[6:16]+" "+line[16:38]+" "+line[38:46]+" "+line[46:]
for kw in [dict(), dict(serial=99999), dict(serial=100000), dict(serial=1234567), dict(res_seq=9999), dict(res_seq=10000), dict(res_seq=-999), dict(res_seq=-1000),
           dict(ins_code="A"), dict(res_seq=9999,ins_code="B"), dict(x=9999.999), dict(x=10000.0), dict(x=-999.999,y=-999.999,z=-999.999), dict(x=-1000.0), dict(x=99999.5,y=-99999.5),
           dict(name="HH12"), dict(name="H5''"), dict(name="HD11FLIP"), dict(res_name="NALA"), dict(res_name="A"), dict(res_name="NEUTRAL-NALA"[:12]), dict(ffcharge=-10.1234), dict(radius=12.3456), dict(ffcharge=-0.00004), dict(type="HETATM", serial=100000),
           dict(chain_id=""), dict(chain_id="AB")]:
    a=mk(**kw)
    for cf in (False, True):
        s=a.get_pqr_string(chainflag=cf)
        w=ws(s)
        try:
            b=Atom.from_pqr_line(w)
            rb=(b.type,b.serial,b.name,b.res_name,b.chain_id,b.res_seq,b.ins_code,b.x,b.y,b.z,b.charge,b.radius)
        except Exception as e:
            rb=("EXC",type(e).__name__,str(e)[:40])
        print(kw, cf, repr(s)); print("      ws:", repr(w)); print("      rb:", rb)
