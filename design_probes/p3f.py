import logging, sys, collections, numpy as np, random
logging.disable(logging.CRITICAL)
from run1 import run
from pdb2pqr import io as pio
D=pio.get_definitions()
rng=random.Random(int(sys.argv[1]) if len(sys.argv)>1 else 0)
FORMAL={"ARG":1,"LYS":1,"ASP":-1,"GLU":-1,"HIP":1,"CYM":-1,"TYM":-1}
def load(path):
    res=collections.OrderedDict()
    for l in open(path):
        if l.startswith(("ATOM","HETATM")) and l[16] in " A":
            res.setdefault((l[21],int(l[22:26]),l[26]),[]).append(l)
    return res
issues=collections.Counter(); ex={}
nruns=0
for src in ("1AFS","1K1I","1AJJ","1BX8"):
    R=load(f"/repo/tests/data/{src}.pdb")
    keys=[k for k in R if R[k][0].startswith("ATOM")]
    wat=[k for k in R if R[k][0][17:20]=="HOH"]
    for it in range(12):
        i=rng.randrange(len(keys)-5); n=rng.randint(3,40)
        sel=[k for k in keys[i:i+n] if k[0]==keys[i][0]]
        lines=[l for k in sel for l in R[k]]
        # nearby waters
        P=np.array([[float(l[30:38]),float(l[38:46]),float(l[46:54])] for l in lines])
        for w in wat:
            l=R[w][0]; x=np.array([float(l[30:38]),float(l[38:46]),float(l[46:54])])
            if np.min(np.linalg.norm(P-x,axis=1))<3.5: lines.append(l)
        if rng.random()<0.5:  # delete some side-chain atoms
            lines=[l for l in lines if not (l.startswith("ATOM") and l[12:16].strip() not in("N","CA","C","O","CB") and rng.random()<0.08)]
        open("/tmp/probe/f.pdb","w").write("".join(lines)+"END\n")
        ff=rng.choice(["AMBER","CHARMM","PARSE","TYL06","PEOEPB","SWANSON"])
        opts=[f"--ff={ff}"]+rng.choice([[],["--noopt"],["--nodebump"],["--nodebump","--noopt"]])
        nruns+=1
        try: miss,_,bio=run(opts+["/tmp/probe/f.pdb","/tmp/probe/f.pqr"])
        except Exception as e:
            k=("EXC",ff,type(e).__name__,str(e.__cause__ or e)[:60]); issues[k]+=1; ex[k]=(src,sel[0],len(sel),opts); continue
        missed=set(id(a) for a in miss)
        for res in bio.residues:
            names=[a.name for a in res.atoms]
            if any(n.endswith("FLIP") or n.startswith("LP") for n in names): issues["temp",res.name]+=1; ex["temp",res.name]=(src,sel[0],len(sel),opts,names)
            if len(set(names))!=len(names): issues["dup",res.name]+=1
            if not hasattr(res,"ffname") or res.name=="WAT" and False: continue
            full=all(id(a) not in missed for a in res.atoms)
            if res.ffname in D.map and full:
                ref=set(n for n in D.map[res.ffname].map if n not in("N+1","C-1"))
                if res.ffname.endswith(("ASH",)): ref-={"HD1"}
                if res.ffname.endswith(("GLH",)): ref-={"HE1"}
                if set(names)!=ref:
                    k=("atomset",ff,res.ffname,tuple(sorted(set(names)-ref)),tuple(sorted(ref-set(names)))); issues[k]+=1; ex[k]=(src,sel[0],len(sel),opts,str(res))
            if full and res.name!="WAT":
                base=res.ffname
                exp=0
                for pre,q in (("NEUTRAL-N",0),("NEUTRAL-C",0),("N",1),("C",-1)):
                    if base.startswith(pre) and base[len(pre):] in D.map and len(base)>3: exp+=q; base=base[len(pre):]; break
                exp+=FORMAL.get(base,0)
                if abs(res.charge-exp)>1e-3:
                    k=("charge",ff,res.ffname,res.charge,exp); issues[k]+=1; ex[k]=(src,sel[0],len(sel),opts,str(res))
print("runs",nruns)
for k,v in sorted(issues.items(),key=str): print(k,v,ex.get(k))
