import logging, sys, numpy as np, io
logging.disable(logging.CRITICAL)
from pdb2pqr import io as pio, pdb, debump, cells
from pdb2pqr.main import setup_molecule
import gen
lines=gen.pdb_lines([("A",1,gen.build_peptide(["ALA","ILE","THR","ALA"]))])
pl,_=pdb.read_pdb(io.StringIO("".join(lines)))
d=pio.get_definitions()
b,_,_=setup_molecule(pl,d,None)
b.set_termini(neutraln=False,neutralc=False); b.update_bonds(); b.add_hydrogens()
db=debump.Debump(b); db.cells=cells.Cells(2); db.cells.assign_cells(b)
b.calculate_dihedral_angles(); b.set_donors_acceptors(); b.update_internal_bonds(); b.set_reference_distance()
for res,idx in ((b.residues[1],1),(b.residues[2],1)):
    print(res, res.reference.dihedrals[idx])
    before={a.name:np.array(a.coords) for a in res.atoms}
    bl0={a.name:float(np.linalg.norm(np.array(a.coords)-np.array(a.bonds[0].coords))) for a in res.atoms if a.name.startswith("H")}
    db.set_dihedral_angle(res, idx, res.dihedrals[idx]+50.0)
    print("  moved:", {a.name:round(float(np.linalg.norm(before[a.name]-np.array(a.coords))),3) for a in res.atoms if np.linalg.norm(before[a.name]-np.array(a.coords))>1e-6})
    print("  H bond length changes:", {a.name:(round(bl0[a.name],3),round(float(np.linalg.norm(np.array(a.coords)-np.array(a.bonds[0].coords))),3)) for a in res.atoms if a.name.startswith("H") and abs(bl0[a.name]-np.linalg.norm(np.array(a.coords)-np.array(a.bonds[0].coords)))>1e-3})
