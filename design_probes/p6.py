import logging, io
logging.disable(logging.CRITICAL)
from pdb2pqr import io as pio
from pdb2pqr.structures import Atom
def dx(nx,ny,nz,vals,blank=False,trailer=True):
    s="# Data from APBS\n# comment\n"
    s+=f"object 1 class gridpositions counts {nx} {ny} {nz}\n"
    s+="origin -1.500000e+01 2.0e+00 3.25\n"
    s+="delta 5.000000e-01 0.000000e+00 0.000000e+00\ndelta 0.000000e+00 6.000000e-01 0.000000e+00\ndelta 0.000000e+00 0.000000e+00 7.000000e-01\n"
    s+=f"object 2 class gridconnections counts {nx} {ny} {nz}\n"
    s+=f"object 3 class array type double rank 0 items {nx*ny*nz} data follows\n"
    for i in range(0,len(vals),3):
        s+=" ".join("%.6e"%v for v in vals[i:i+3])+"\n"
    if blank: s+="\n"
    if trailer:
        s+='attribute "dep" string "positions"\nobject "regular positions regular connections" class field\ncomponent "positions" value 1\ncomponent "connections" value 2\ncomponent "data" value 3\n'
    return s
atoms=pio.read_pqr(io.StringIO("ATOM      1  N   ALA     1       1.000   2.000   3.000 -0.5000 1.5000\nATOM      2  CA  ALA     1       2.000   2.000   3.000  0.5000 1.7000\n"))
for (nx,ny,nz) in [(2,2,2),(1,1,1),(2,3,1),(3,2,2),(1,1,7),(2,3,3)]:
    n=nx*ny*nz; vals=[(-1)**i*(i+0.123456789)*10**(i%7-3) for i in range(n)]
    for blank in (False,True):
        try:
            d=pio.read_dx(io.StringIO(dx(nx,ny,nz,vals,blank)))
            out=io.StringIO(); pio.write_cube(out,d,atoms)
            txt=out.getvalue().splitlines()
            hdr=txt[:6+len(atoms)]; data=" ".join(txt[6+len(atoms):]).split()
            print((nx,ny,nz),blank,"nvals",len(d["values"]),"cube vals",len(data), "lines", len(txt)-6-len(atoms), hdr[2:6], "endsNL", out.getvalue().endswith("\n"))
        except Exception as e:
            print((nx,ny,nz),blank,"EXC",type(e).__name__,e)
print(out.getvalue())
