import logging, sys, collections, numpy as np, random
logging.disable(logging.CRITICAL)
from run1 import run
def tpl_len(res, a, b):
    ref=res.reference.map
    if a.name in ref and b.name in ref:
        return float(np.linalg.norm(np.array(ref[a.name].coords)-np.array(ref[b.name].coords)))
    return None
rng=random.Random(1)
for f in sys.argv[1:]:
    src=open(f).read().splitlines(True)
    for variant in ("pristine","del-sidechain"):
        lines=src
        if variant=="del-sidechain":
            lines=[l for l in src if not (l.startswith("ATOM") and l[12:16].strip() not in ("N","CA","C","O","CB","OXT") and rng.random()<0.04)]
        open("/tmp/probe/v.pdb","w").write("".join(lines))
        for opts in (["--ff=AMBER"],["--ff=PARSE","--noopt"]):
            try: miss,_,bio=run(opts+["/tmp/probe/v.pdb","/tmp/probe/v.pqr"])
            except Exception as e: print(f.split("/")[-1],variant,opts,"EXC",type(e).__name__,str(e.__cause__ or e)[:80]); continue
            st=collections.Counter(); ex={}
            nadded=0
            for res in bio.residues:
                names=[a.name for a in res.atoms]
                if len(set(names))!=len(names): st["dup"]+=1
                for a in res.atoms:
                    if a.name.endswith("FLIP") or a.name.startswith("LP"): st["temp"]+=1; ex["temp"]=(str(res),a.name)
                    if not a.added: continue
                    nadded+=1
                    if a.name.startswith("H"):
                        par=[b for b in a.bonds]
                        if len(par)!=1: st["H-nbonds",len(par)]+=1; ex["H-nbonds",len(par)]=(str(res),a.name,[b.name for b in par]); continue
                        d=float(np.linalg.norm(np.array(a.coords)-np.array(par[0].coords)))
                        t=tpl_len(res,a,par[0])
                        if t is None: st["H-notpl",res.name if res.name!="WAT" else "WAT"]+=1; t=1.0 if res.name!="WAT" else 0.9572
                        if abs(d-t)>0.05: st["H-len-off",res.name,a.name]+=1; ex["H-len-off",res.name,a.name]=(str(res),round(d,3),round(t,3))
                    for b in res.atoms:
                        if b is not a and np.linalg.norm(np.array(a.coords)-np.array(b.coords))<0.4:
                            st["coincide"]+=1; ex["coincide"]=(str(res),a.name,b.name)
            print(f.split("/")[-1],variant,opts,"added",nadded,dict(st))
            for k,v in ex.items(): print("     ",k,v)
