import logging
logging.disable(logging.CRITICAL)
from pdb2pqr import io as pio, forcefield
d=pio.get_definitions()
states=["ASP","ASH","GLU","GLH","CYS","CYM","CYX","LYS","LYN","TYR","TYM","ARG","AR0","HIP","HID","HIE","ALA","PRO","GLY"]
for ff in ["amber","charmm","parse","tyl06","peoepb","swanson"]:
    F=forcefield.Forcefield(ff,d,None)
    print("==",ff, "nres", len(F.map))
    for pre in ["","N","C","NEUTRAL-N","NEUTRAL-C"]:
        row=[]
        for s in states:
            name=pre+s
            ref=d.map.get(name)
            if name not in F.map: row.append(s+":-"); continue
            if ref is None: row.append(s+":noref"); continue
            missing=[a for a in ref.map if a not in F.map[name].atoms and a not in ("N+1","C-1")]
            row.append(s+(":ok" if not missing else ":miss(%s)"%",".join(missing)))
        print("  %-10s"%pre, " ".join(row))
