import logging, sys
logging.disable(logging.CRITICAL)
import pdb2pqr.main as M
from run1 import run
import gen
TABLE={}
def fake_propka(args, bio):
    rows=[]
    for r in bio.residues:
        if r.name in TABLE:
            rows.append(dict(res_num=r.res_seq, ins_code=r.ins_code, res_name=r.name, chain_id=r.chain_id, group_label=f"{r.name} {r.res_seq} {r.chain_id}", group_type=None, pKa=TABLE[r.name], model_pKa=TABLE[r.name], buried=0, coupled_group=None))
    return rows, ""
M.run_propka=fake_propka
for ff in ["AMBER","SWANSON","TYL06","PEOEPB","CHARMM","PARSE"]:
    for R,pka,ph in (("LYS",10.5,13.0),("CYS",9.0,13.0),("TYR",10.0,13.0),("ASP",3.8,1.0),("GLU",4.5,1.0),("ARG",12.5,13.5)):
        TABLE.clear(); TABLE[R]=pka
        open("/tmp/probe/t6.pdb","w").write("".join(gen.pdb_lines([("A",1,gen.build_peptide([R,"ALA",R,"ALA",R]))])))
        try:
            miss,_,bio=run([f"--ff={ff}","--titration-state-method=propka",f"--with-ph={ph}","/tmp/probe/t6.pdb","/tmp/probe/t6.pqr"])
            written=set(int(l[22:26]) for l in open("/tmp/probe/t6.pqr") if l.startswith("ATOM"))
            print(ff,R,ph,[r.ffname for r in bio.residues][::2],"residues written",sorted(written),"missed",len(miss))
        except Exception as e: print(ff,R,ph,"EXC",type(e).__name__,str(e.__cause__ or e)[:80])
