import sys, logging, time
logging.disable(logging.CRITICAL)
from pdb2pqr.main import build_main_parser, main_driver
def run(argv):
    p = build_main_parser()
    a = p.parse_args([str(x) for x in argv])
    return main_driver(a)
if __name__ == "__main__":
    t=time.time()
    miss, pka, bio = run(sys.argv[1:])
    print("atoms", len(bio.atoms), "residues", len(bio.residues), "missed", None if miss is None else len(miss), "time %.2f"%(time.time()-t))
