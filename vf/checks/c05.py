"""C05 - atoms added by pdb2pqr have template-consistent bonded geometry.

(a) in vivo (vf.mon.geom): every quatfit.find_coordinates call = Kabsch image of the template point; every atom
    created from a fit lies within the anchors' residuals of its template distances; every torsion change carries
    the atoms connected beyond the pivot and nothing else (added atoms / hydrogens here; input heavy atoms are
    C04's); tetrahedral rotations move only the substituents.
(b) end state, for every added atom of the result: bonded to exactly the parent its topology names (nearest heavy
    atom), parent distance and 1-3 distances equal the template's within the distortion already present in the
    input around that parent, and no two atoms of a residue coincide.
"""
import logging
import math

import numpy as np

from .. import common, pipeline
from ..gen import workload
from ..mon import pkastub, geom, match
from ..ref import states
from ..ref import topology as topo
from ..run import Res

ID = "C05"
LEVEL = "exploration"
EVAL_COUNTER = "added_atoms_checked"
RULE = ("lattice cases (every input residue name x position x force field) and synthetic / fragment structures: dense "
        "packings, waters with 0/1/2 hydrogens, deleted side-chain atoms (rebuilt heavy atoms), pre-existing partial "
        "hydrogens, nucleic strands; options default / noopt / nodebump / both / drop-water / neutral termini. "
        "Non-trivial: added atom whose residue is terminal, rebuilt, optimisable (SER/THR/TYR/CYS/HIS/ASN/GLN/ASH/GLH/"
        "water/Lys/Arg/termini) or nucleic; distinct = (residue base, position, atom name, rebuilt-heavy?, option class)"
        ' Round-2 additions: long real stretches; backbone gaps (residues deleted mid-chain, no TER); deleted backbone atoms (O, C+O, N, C); pKa route; neighbour anchors (N+1/C-1) must be bonded (<= 2.0 A); fit-residual allowance capped at 0.5 A; coincidence judged at 0.1 A.'
        ' Round-3/4 additions: unequal carboxyl C-O bonds; carbon obstacles at polar / terminal hydrogen sites; PRO.')
ASSUMPTIONS = ["parent and 1-3 partners of an added atom come from the harness' own parse of the topology XML for the "
               "independently derived final state",
               "tolerance = 0.02 A + local input distortion (largest discrepancy between structure and template over "
               "1-2/1-3 distances among the input heavy atoms within two bonds of the parent), x1.5 for 1-3 distances; "
               "exact-template synthetic inputs therefore get 0.02/0.03 A",
               "water hydrogens: bond length within 0.06 A of the template value (the optimiser builds O-H = 1.0 A)",
               "the templates the loader hands to the build stages are physically plausible: every template hydrogen lies "
               "0.90-1.15 A from the atom it is bonded to, geminal hydrogens are at least 100 degrees apart, bonded heavy "
               "atoms are 1.15-1.90 A apart, every torsion is defined over a bonded path whose axis is no ring bond (the 194 "
               "definitions of the unchanged tree lie within 0.96-1.09 A, >= 108.7 degrees, 1.22-1.83 A): a slipped digit "
               "in a data file would otherwise become 'what the template prescribes'"]
MIN = {"quick": {"added_atoms_checked": 10000, "fit_events": 9000, "create_atom_events": 12000,
                 "rebuilt_heavy_atoms_checked": 150, "torsion_calls_invivo": 200, "pka_route_runs": 15,
                 "template_atoms_checked": 3000},
       "thorough": {"added_atoms_checked": 400000, "fit_events": 300000, "create_atom_events": 400000,
                    "rebuilt_heavy_atoms_checked": 5000, "torsion_calls_invivo": 8000, "pka_route_runs": 800,
                    "template_atoms_checked": 3000}}
OPTIMISABLE = {"SER", "THR", "TYR", "CYS", "HIS", "ASN", "GLN", "ASP", "GLU", "LYS", "ARG"}


def cases(tier, seed):
    out = [{"kind": "templates", "seed": seed}]

    def opts(rng, spec):
        o = [f"--ff={spec['ff']}"]
        c = rng.random()
        if c < 0.1:
            o.append("--noopt")
        elif c < 0.2:
            o.append("--nodebump")
        elif c < 0.27:
            o += ["--nodebump", "--noopt"]
        elif c < 0.32:
            o.append("--drop-water")
        if spec["ff"] == "PARSE" and rng.random() < 0.3:
            o.append(rng.choice(["--neutraln", "--neutralc"]))
        if rng.random() < 0.15:
            # the pKa route (stubbed pKa source, random table): titrated states, hydrogens stripped and rebuilt
            o += pkastub.titration_opts(rng)
        return o

    for rep in range(1 if tier == "quick" else 30):
        for spec in workload.lattice_cases(seed * 47 + rep, opts_fn=opts, p={"damage_prob": 0.3, "carboxyl_asym_prob": 0.4, "dense_prob": 0.7,
                                                                             "hydrogens": ["none", "none", "some"]}):
            spec["kind"] = "run"
            out.append(spec)
    n = 170 if tier == "quick" else 18000
    for spec in workload.standard_cases(tier, seed, n, n, opts_fn=opts, frag_share=0.35,
                                        p={"icode_prob": 0.2, "variant_prob": 0.15, "na_prob": 0.15, "waters": [0, 2, 5, 8],
                                           "damage_prob": 0.3, "carboxyl_asym_prob": 0.4, "gap_prob": 0.25, "bb_damage_prob": 0.04, "dense_prob": 0.8, "crowd_prob": 0.3,
                                           "charmm_h_prob": 0.35,
                                           "hydrogens": ["none", "none", "some", "side"]}):
        spec["kind"] = "run"
        out.append(spec)
    # long stretches / whole chains of the real proteins
    for spec in workload.long_cases(seed, 7 if tier == "quick" else 420, opts_fn=opts,
                                    long_max=150 if tier == "quick" else 400):
        spec["kind"] = "run"
        out.append(spec)
    import random
    # fully protonated inputs (pdb2pqr's own hydrogen names) through the pKa route: every hydrogen is stripped and
    # rebuilt as a new object, then debumping and flips work on them; flip-prone residues, dense and hydrated
    nrefed = 36 if tier == "quick" else 3000
    rngp = random.Random(seed * 83 + 7)
    for i in range(nrefed):
        ff = common.FFS[i % 6]
        out.append({"kind": "run", "w": "synth", "seed": seed * 930001 + i, "ff": ff,
                    "opts": [f"--ff={ff}"] + pkastub.titration_opts(rngp),
                    "p": {"hydrogens": ["all"], "nterm_amide_prob": 0.7, "dense_prob": 1.0, "waters": [3, 6, 9], "na": False,
                          "minlen": 4, "maxlen": 7, "variant_prob": 0.0,
                          "pool": ["ASN", "GLN", "HIS", "ASN", "GLN", "SER", "THR", "ASP", "LYS", "TYR", "ALA", "GLY"]}})
    # protonated inputs on the default route whose methylene hydrogens carry the CHARMM / GROMACS names and order
    # (X1 X2 instead of X2 X3): kept hydrogens and rebuilt ones meet in one residue
    ncharmm = 24 if tier == "quick" else 2500
    for i in range(ncharmm):
        ff = common.FFS[i % 6]
        out.append({"kind": "run", "w": "synth", "seed": seed * 940001 + i, "ff": ff,
                    "opts": [f"--ff={ff}"] + [[], [], ["--noopt"], ["--nodebump"]][i % 4],
                    "p": {"hydrogens": ["all", "all", "side", "some"], "charmm_h_prob": 0.8, "dense_prob": 0.6, "waters": [0, 2],
                          "na": False, "minlen": 3, "maxlen": 7, "variant_prob": 0.05,
                          "pool": ["GLY", "GLY", "SER", "LYS", "ILE", "PRO", "ASP", "GLU", "PHE", "ARG", "MET", "CYS",
                                   "LEU", "ASN", "GLN", "HIS", "TRP", "TYR", "THR", "VAL", "ALA"]}})
    nstress = 40 if tier == "quick" else 5000
    rng = random.Random(seed * 79 + 5)
    for i in range(nstress):
        ff = common.FFS[i % 6]
        out.append({"kind": "run", "w": "synth", "seed": seed * 910001 + i, "ff": ff, "opts": opts(rng, {"ff": ff}),
                    "p": {"crowd_prob": 0.6, "crowd_heavy_prob": 1.0, "carbon_obstacle_prob": 0.5, "shuffle_atoms_prob": 0.3, "minlen": 5, "maxlen": 9, "na": False, "waters": [0],
                          "hydrogens": ["none", "none", "some"], "variant_prob": 0.05,
                          "pool": ["ARG", "LYS", "GLU", "GLN", "MET", "ILE", "LEU", "TRP", "PHE", "TYR", "HIS", "ASN",
                                   "ASP", "THR", "VAL", "SER", "PRO", "PRO"]}})
        if i % 6 == 2:
            # long / ring side chains at the chain ends (terminal torsions and caps meet deep side-chain torsions)
            out[-1]["p"]["nterm_pool"] = ["ARG", "TRP", "ARG", "TRP", "LYS", "MET", "GLN"]
            out[-1]["p"]["cterm_pool"] = ["ARG", "TRP", "PRO", "LYS", "MET", "GLN", "GLU", "HIS", "TYR"]
        elif i % 6 in (4, 5):
            # an imino N-terminus (one amine hydrogen less, ring closed onto N) with an obstacle at its hydrogen
            out[-1]["p"]["nterm_pool"] = ["PRO", "PRO", "PRO", "GLU", "HIS"]
            out[-1]["p"]["cterm_pool"] = ["PRO", "ARG", "TRP", "LYS", "GLN"]
            out[-1]["p"]["carbon_obstacle_prob"] = 1.0
    return out


def graph(d):
    return {a: [b for b in v["bonds"] if b in d.atoms] for a, v in d.atoms.items()}


def check_endstate(res, spec, m, r, opts):
    from .c03 import norm_name
    pairs = match.match_residues(r.bio, m["items"], m["truth"])
    bonded, ambiguous = match.ss_truth(r.bio)
    idx, _ = match.input_index(m["items"])
    inp_names = {}
    for xyz, (ordinal, name, _resi) in idx.items():
        inp_names.setdefault(ordinal, {})[name] = np.array(xyz)
    tord = {id(t): k for k, t in enumerate(m["truth"])}
    oc = "noopt" if opts.noopt else "opt"
    for residue, tr in pairs:
        if tr is None or tr["kind"] not in ("aa", "na", "wat"):
            continue
        names = {a.name for a in residue.atoms}
        pos = "I" if tr.get("cyclic") else tr["pos"]
        wit0 = {"ff": spec["ff"], "opts": spec["opts"], "seed": spec["seed"], "w": spec["w"],
                "residue": f"{tr['resn']} {tr['chain']} {tr['resi']}", "position": pos}
        k0 = tord[id(tr)]
        # backbone atoms that were missing from the input here / in the chain neighbours (their rebuilt positions are
        # anchors for this residue's amide hydrogen and carbonyl oxygen)
        wit0["backbone_rebuilt"] = {"here": tr.get("bb_removed"), "gap_after": bool(tr.get("gap_after")),
                                    "gap_before": bool(tr.get("gap_before")),
                                    "prev": m["truth"][k0 - 1].get("bb_removed") if k0 > 0 else None,
                                    "next": m["truth"][k0 + 1].get("bb_removed") if k0 + 1 < len(m["truth"]) else None}
        P = {a.name: np.array([a.x, a.y, a.z]) for a in residue.atoms}
        # coincidence
        al = list(P.items())
        for i in range(len(al)):
            for j in range(i):
                # "coincide" = the same place (two atoms built on one template point, an atom put on top of an existing
                # one).  A close clash that debumping could not resolve on a crowded input (it warns "Unable to debump")
                # is not coincidence: 0.1 A separates the two (a 0.38 A HD22..H contact was seen on the unchanged tree
                # after a failed debump plus a flip and would have been a false alarm under a 0.4 A bound).
                if np.linalg.norm(al[i][1] - al[j][1]) < 0.1:
                    res.violate("endstate/atoms-coincide", f"{al[i][0]} and {al[j][0]} of {tr['resn']} {tr['resi']} are "
                                f"{np.linalg.norm(al[i][1] - al[j][1]):.3f} A apart", **wit0)
        if id(residue) in ambiguous:
            continue
        # topology of the final state (own XML parse)
        ss = id(residue) in bonded
        try:
            if tr["kind"] == "aa":
                titr = ()
                d = topo.expected_def(tr["base"], states.patches_for(tr, opts, ss, titr))
                base = tr["base"]
            elif tr["kind"] == "wat":
                d = topo.load()[0]["WAT"]
                base = "WAT"
            else:
                res_, patches, _ = topo.load()
                base = topo.NUCLEIC_BASE[tr["resn"]]
                d = res_[base].copy()
                if base not in ("DT", "RU") and "O2'" not in names:
                    d = topo.apply_patch(d, patches["D" + base[1]])
                if pos in ("N", "NC"):
                    d = topo.apply_patch(d, patches["5TERM"])
                if pos in ("C", "NC"):
                    d = topo.apply_patch(d, patches["3TERM"])
        except KeyError:
            continue
        g = graph(d)
        T = {a: np.array(v["xyz"]) for a, v in d.atoms.items()}
        # XH3 groups completed by 120-degree rotations: the three hydrogens are equidistant from each other
        # (judged only when at most one of them came from the input, whose geometry is the input's own)
        inp_here = {norm_name(base if tr["kind"] != "aa" else tr["base"], k) for k in inp_names.get(tord[id(tr)], {})}
        for par, nbs in g.items():
            hs = [h for h in nbs if h.startswith("H") and h in P]
            if len(hs) == 3 and len([h for h in nbs if h.startswith("H")]) == 3 and par in P and \
                    sum(1 for h in hs if h in inp_here) <= 1 and any(h not in inp_here for h in hs):
                dd = [float(np.linalg.norm(P[hs[i]] - P[hs[j]])) for i in range(3) for j in range(i)]
                res.count("xh3_groups_checked")
                if max(dd) - min(dd) > 5e-3:
                    res.violate(f"endstate/xh3-not-threefold/{tr['base'] if tr['kind'] == 'aa' else tr['kind']}",
                                f"{hs} on {par} of {tr['resn']} {tr['resi']} (position {pos}): H-H distances "
                                f"{[round(x, 3) for x in dd]} are not equal", **wit0)
        inp = {norm_name(base, k): v for k, v in inp_names.get(tord[id(tr)], {}).items()}
        owned = {id(a) for a in residue.atoms}
        fits = [a._vf_fit["max_residual"] for a in residue.atoms if getattr(a, "_vf_fit", None)]
        hooked = any(hasattr(a, "_vf_born") for a in residue.atoms)
        rmax = max(fits) if fits else 0.0
        for a in residue.atoms:
            if a.name in inp and np.linalg.norm(P[a.name] - inp[a.name]) < 5e-4:
                continue                     # an input atom that kept its place
            if a.name in inp and not a.added:
                continue                     # an input atom that moved: C04's subject
            n = a.name
            if n not in g:
                continue
            is_h = n.startswith("H")
            heavy_nb = [b for b in g[n] if not b.startswith("H") and b in P]
            if not heavy_nb:
                continue
            res.count("added_atoms_checked")
            if not is_h:
                res.count("rebuilt_heavy_atoms_checked")
            if pos != "I" or not is_h or tr["base"] in OPTIMISABLE or tr["kind"] != "aa":
                res.nt(tr["base"] if tr["kind"] == "aa" else tr["kind"], pos, n, not is_h, oc)
            res.cell(tr["base"] if tr["kind"] == "aa" else tr["kind"], pos, "H" if is_h else "heavy")
            parent = heavy_nb[0]
            wit = dict(wit0, atom=n, parent=parent, rebuilt_heavy=not is_h, max_fit_residual=round(rmax, 4))
            cls = atom_class(tr, n, pos)
            # (i) shadow invariance: distances to the parent and to the parent's other neighbours are the ones the
            #     atom had when it was (last) placed - rigid torsion moves and tetrahedral rotations keep them
            bondedset = {parent} | {x for x in g[parent] if x != n}
            born = getattr(a, "_vf_born", None)
            for bobj, d0 in getattr(a, "_vf_d0", []):
                if id(bobj) not in owned or bobj.name not in bondedset:
                    continue
                if getattr(bobj, "_vf_born", 0) > (born or 0):
                    continue                 # the partner was itself placed later
                dn = float(np.linalg.norm(P[n] - np.array([bobj.x, bobj.y, bobj.z])))
                res.count("shadow_distances_compared")
                if abs(dn - d0) > 2e-3:
                    what = "parent" if bobj.name == parent else "1-3 partner"
                    res.violate(f"endstate/moved-relative-to-{'parent' if bobj.name == parent else 'neighbour'}-after-placement/"
                                f"{cls}", f"{n} of {tr['resn']} {tr['resi']} (position {pos}) was placed {d0:.3f} A from its "
                                f"{what} {bobj.name} and ends {dn:.3f} A from it", **wit)
                    break
            # (ii) absolute bond length.  Atoms placed by a template fit are held to the template; atoms completed
            #      from an existing sibling (tetrahedral rotations) inherit the sibling's geometry, which for input
            #      hydrogens is the input's own (e.g. the planar amide H of a cut N-terminus): those get a loose sanity
            #      bound here and are judged by the shadow invariance and the in-vivo rotation monitor.
            fitted = bool(getattr(a, "_vf_fit", None)) and a._vf_fit["n"] >= 3
            # the two oxygens of a protonated carboxylic group may have exchanged labels (see C04)
            twin = {"OD1": "OD2", "OD2": "OD1", "OE1": "OE2", "OE2": "OE1", "O": "OXT", "OXT": "O"}
            Tn = [T[n]] + ([T[twin[n]]] if n in twin and twin[n] in T else [])
            if hooked:
                # the fit residual measures distortion of the (bonded) anchors in the input; it is capped so that an
                # anchor that is not bonded at all (e.g. taken across a backbone gap) cannot excuse the result
                tol = (0.03 + min(rmax, 0.5)) if fitted else 0.15
            else:
                near = {parent} | set(g[parent])
                for b2 in list(near):
                    near |= set(g.get(b2, []))
                near = [x for x in near if x in inp and x in T and x in P and not x.startswith("H")]
                dist = 0.0
                for i in range(len(near)):
                    for j in range(i):
                        x, y = near[i], near[j]
                        if y in g[x] or set(g[x]) & set(g[y]):
                            dist = max(dist, abs(np.linalg.norm(P[x] - P[y]) - np.linalg.norm(T[x] - T[y])))
                tol = 0.03 + 2 * dist
            if tr["kind"] == "wat":
                tol = max(tol, 0.06)
            dpar = float(np.linalg.norm(P[n] - P[parent]))
            tpar = min((float(np.linalg.norm(t - T[parent])) for t in Tn), key=lambda v: abs(v - dpar))
            if abs(dpar - tpar) > tol:
                kind = "detached" if dpar > tpar + 0.3 else "bond-length"
                res.violate(f"endstate/{kind}/{cls}", f"{n} of {tr['resn']} {tr['resi']} (position {pos}) is {dpar:.3f} A from "
                            f"its parent {parent}, template {tpar:.3f} (tolerance {tol:.3f})", **wit)
                continue
            # (iii) attached to the parent only
            if is_h:
                # ... among the atoms of its own neighbourhood (the parent's neighbours and theirs).  A close contact with
                # an atom many bonds away (e.g. an ASN HD22 0.8 A from the backbone O after the debumper gave up on a
                # crowded input - seen on the unchanged tree) is a clash left by the torsion search, not a detachment.
                local_nb = set(g[parent])
                for b3 in list(local_nb):
                    local_nb |= set(g.get(b3, []))
                other = [(float(np.linalg.norm(P[n] - P[b2])), b2) for b2 in P
                         if b2 != n and b2 != parent and b2 in local_nb and not b2.startswith("H")
                         and not b2.startswith("LP")]
                if other and min(other)[0] < dpar - 1e-6:
                    res.violate(f"endstate/nearer-to-another-atom/{cls}", f"{n} is {dpar:.3f} A from its parent {parent} but "
                                f"{min(other)[0]:.3f} A from {min(other)[1]}", **wit)
                    continue
            # (iv) bond angles through 1-3 distances
            if tr["kind"] == "wat":
                continue
            if hooked and not fitted:
                continue
            # local distortion incl. the 1-3 partners themselves: residuals of our own fit of the template onto the
            # structure over the parent's two-bond heavy neighbourhood
            shell = {parent} | {x for x in g[parent]}
            for b2 in list(shell):
                shell |= set(g.get(b2, []))
            shell = [x for x in shell if x in T and x in P and not x.startswith("H") and x != n and x not in twin]
            local = 0.0
            if len(shell) >= 3:
                from ..ref import rigid
                local = float(rigid.residuals(np.array([T[x] for x in shell]), np.array([P[x] for x in shell])).max())
            tol13 = 0.06 + 2 * (tol - 0.03) + 2 * local
            for b2 in g[parent]:
                if b2 == n or b2 not in P or b2 not in T or b2.startswith("H"):
                    continue
                d13 = float(np.linalg.norm(P[n] - P[b2]))
                cands = [float(np.linalg.norm(t - tb)) for t in Tn for tb in ([T[b2]] + ([T[twin[b2]]] if b2 in twin and
                                                                                       twin[b2] in T else []))]
                t13 = min(cands, key=lambda v: abs(v - d13))
                if abs(d13 - t13) > tol13:
                    res.violate(f"endstate/bond-angle/{cls}", f"{n}-{parent}-{b2} of {tr['resn']} {tr['resi']} (position "
                                f"{pos}): {n}..{b2} = {d13:.3f} A, template {t13:.3f} (tolerance {tol13:.3f})", **wit)
                    break


def rekey_backbone_repair(res, m):
    """Mechanism key for the listed finding: heavy-atom repair rebuilds a missing backbone N (or a missing C whose O
    is missing too) from anchors that include the neighbouring residue's C / N at *template* backbone torsions, so
    the anchor set is not one rigid frame and the rebuilt atom - and the hydrogens later built on it - are off.
    The key applies only to end-state violations of a residue whose own N, or C together with O, was absent from the
    input (or whose chain neighbour's was, for the atoms that take the neighbour's rebuilt atom as an anchor)."""
    for v in res.violations:
        if not v["mech"].startswith("endstate/"):
            continue
        br = v["witness"].get("backbone_rebuilt") or {}
        here = br.get("here") or []
        kind = None
        if ("C" in here and br.get("gap_after")) or ("N" in here and br.get("gap_before")):
            v["witness"]["original_mech"] = v["mech"]
            v["mech"] = "repair/neighbour-linked-across-gap-when-own-backbone-atom-missing"
            continue
        if "N" in here:
            kind = "N"
        elif "C" in here and "O" in here:
            kind = "C+O"
        elif "C" in here and v["witness"].get("position") in ("C", "NC"):
            kind = "C-at-chain-end"
        else:
            atom = v["witness"].get("atom")
            prev, nxt = br.get("prev") or [], br.get("next") or []
            if atom in ("H", "H2", "H3") and ("C" in prev and "O" in prev):
                kind = "C+O-of-previous-residue"
            elif atom in ("O", "OXT") and "N" in nxt:
                kind = "N-of-next-residue"
        if kind:
            v["witness"]["original_mech"] = v["mech"]
            v["mech"] = f"repair/backbone-atom-rebuilt-from-anchors-at-template-torsions/{kind}"


def atom_class(tr, n, pos):
    if tr["kind"] != "aa":
        return tr["kind"]
    if n in ("H", "H2", "H3"):
        return f"amine-H@{pos}"
    if n in ("OXT", "HO", "O"):
        return f"cap@{pos}"
    return f"{tr['base']}/{'H' if n.startswith('H') else 'heavy'}"


def run_templates(res):
    """The definitions as the real loader builds them (AA.xml / NA.xml with PATCHES.xml applied): each template must be
    a plausible molecule, since every added atom is placed by fitting it."""
    import itertools
    import numpy as np
    from pdb2pqr import io as p2io
    definition = p2io.get_definitions()
    for name, ref in sorted(definition.map.items()):
        if not hasattr(ref, "map") or name.endswith("WAT") and name != "WAT":
            continue        # terminal patches applied to water by the generic patch loop are never used
        xyz = {an: np.array([a.x, a.y, a.z], dtype=float) for an, a in ref.map.items()}
        res.count("templates_checked")
        for an, a in ref.map.items():
            res.count("template_atoms_checked")
            for b in a.bonds:
                if b not in xyz or not an < b and not (an.startswith("H") and not b.startswith("H")):
                    continue
                d = float(np.linalg.norm(xyz[an] - xyz[b]))
                h = an.startswith("H") or b.startswith("H")
                lo, hi = (0.90, 1.15) if h else (1.15, 1.90)
                if not lo <= d <= hi:
                    res.violate(f"template/implausible-bond/{'hydrogen' if h else 'heavy'}", f"template {name}: {an}-{b} "
                                f"is {d:.3f} A (plausible {lo}-{hi}); every atom built from this template inherits it",
                                template=name, atoms=[an, b], distance=round(d, 4))
            hs = [h for h in a.bonds if h.startswith("H") and h in xyz]
            for h1, h2 in itertools.combinations(sorted(hs), 2):
                v1, v2 = xyz[h1] - xyz[an], xyz[h2] - xyz[an]
                c = float(np.dot(v1, v2) / (np.linalg.norm(v1) * np.linalg.norm(v2) + 1e-12))
                ang = float(np.degrees(np.arccos(max(-1.0, min(1.0, c)))))
                if ang < 100.0:
                    res.violate("template/implausible-geminal-angle", f"template {name}: {h1}-{an}-{h2} is {ang:.1f} "
                                f"degrees", template=name, atoms=[h1, an, h2], angle=round(ang, 2))
        for dh in getattr(ref, "dihedrals", []) or []:
            # a torsion is defined over a bonded path a-b-c-d: b-c is the axis set_dihedral_angle turns about, so the
            # atoms beyond c keep their bond lengths and angles only if b-c is a bond
            names = dh.split()
            res.count("template_dihedrals_checked")
            for x, y in zip(names, names[1:]):
                if x in ref.map and y in ref.map and y not in ref.map[x].bonds and x not in ref.map[y].bonds:
                    res.violate("template/dihedral-not-a-bonded-path", f"template {name}: torsion '{dh}' names {x}-{y}, "
                                f"which are not bonded; rotating about it bends the angles at {names[2]}",
                                template=name, dihedral=dh)
                    break
            else:
                b, c = names[1], names[2]
                if b in ref.map and c in ref.map:
                    # the axis of a torsion must not be a ring bond: what lies beyond c is turned as a rigid body, which
                    # tears the ring if it closes back onto b (seed C04j gave PRO chi torsions)
                    seen, todo = {c}, [c]
                    while todo:
                        x = todo.pop()
                        for y in ref.map[x].bonds:
                            if y in ref.map and not (x == c and y == b) and y not in seen:
                                seen.add(y)
                                todo.append(y)
                    if b in seen:
                        res.violate("template/dihedral-axis-in-a-ring", f"template {name}: the axis {b}-{c} of torsion '{dh}' "
                                    f"is part of a ring", template=name, dihedral=dh)
        res.nt("template", name)
        res.cell("template", "na" if name[:2] in ("RA", "RC", "RG", "RU", "DA", "DC", "DG", "DT") else "aa")
    res.sample = {"kind": "templates"}


def run_case(spec):
    if spec.get("kind") == "templates":
        res = Res()
        run_templates(res)
        return res
    geom.install()
    res = Res()
    m = workload.materialise(spec)
    geom.drain()
    with pkastub.for_opts(spec["opts"], m["truth"], spec["seed"]) as titr:
        r = pipeline.run(m["text"], spec["opts"], workname="c05")
    if titr is not None:
        res.count("pka_route_runs")
    ev, counts = geom.drain()
    res.count("runs")
    res.count("fit_events", counts["find_coordinates"])
    res.count("create_atom_events", counts["create_atom"])
    res.count("torsion_calls_invivo", counts["set_dihedral"])
    res.count("tetrahedral_rotations_invivo", counts["rotate_tetrahedral"])
    res.count("anchor_identity_checks", counts.get("anchor_identity_checks", 0))
    for u in geom.STATE["unavailable"]:
        res.note("hook_unavailable " + u)
    seen = set()
    for e in ev:
        if e["hook"] == "set_dihedral_angle":
            if e["clause"] == "dragged" and not (e["atom_added"] or e["atom_is_h"]):
                continue      # input heavy atom dragged: C04
            if e["clause"] in ("angle", "axisdist"):
                continue      # C15
            key = f"invivo/torsion-{e['clause']}/{e['atom'] or ''}"
        elif e["hook"] == "rotate_tetrahedral":
            if e["clause"] in ("angle",):
                continue
            key = f"invivo/tetrahedral-{e['mech']}"
        elif e["hook"] == "find_coordinates":
            key = f"invivo/{e['mech']}"
        else:
            key = f"invivo/{e['mech']}"
            if e["mech"] == "anchor-across-backbone-gap":
                # listed mechanism: update_bonds links the neighbour without a distance test when this residue's own
                # C (or N) is absent, so the repair of that atom takes an anchor from across a gap
                own = [t for t in m["truth"] if t["kind"] == "aa" and
                       f"{t['chain']} {t['resi']}{t['icode']}".strip() in e.get("residue", "") and t.get("bb_removed")]
                if own and (("C" in own[0]["bb_removed"] and "N+1" in e["detail"]) or
                            ("N" in own[0]["bb_removed"] and "C-1" in e["detail"])):
                    key = "repair/neighbour-linked-across-gap-when-own-backbone-atom-missing"
        if key in seen:
            continue
        seen.add(key)
        res.violate(key, f"{e.get('residue')}: {e['detail']}", ff=spec["ff"], opts=spec["opts"], seed=spec["seed"],
                    w=spec["w"], event={k: v for k, v in e.items() if k != "detail"})
    if not r.ok:
        res.count("runs_failed")
        return res
    res.count("runs_ok")
    opts = states.Opts(spec["opts"])
    check_endstate(res, spec, m, r, opts)
    rekey_backbone_repair(res, m)
    res.sample = {"ff": spec["ff"], "opts": spec["opts"], "w": spec["w"], "fits": counts["find_coordinates"],
                  "created": counts["create_atom"], "torsion_calls": counts["set_dihedral"]}
    return res


def setup_worker():
    logging.getLogger().setLevel(logging.ERROR)
