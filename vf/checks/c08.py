"""C08 - the PQR file is a faithful, re-readable serialisation of the model.

Direct drive: real Atom.get_pqr_string -> real main.print_pqr (both layouts, chain on/off) -> independent
fixed-column reader / token reader / pdb2pqr's own io.read_pqr, compared field by field with the Atom objects.
End to end: whole runs on structures with hostile numbering, file compared with the matched atoms returned.
"""
import argparse
import io as _io
import random
import tempfile
from pathlib import Path

from .. import common, pipeline
from ..gen import pdbfmt, workload
from ..run import Res

ID = "C08"
LEVEL = "exploration"
EVAL_COUNTER = "records_compared"
RULE = ("direct: random Atom records, each with at most one 'hostile' feature (serial >= 100000, residue number "
        "outside 4 columns, residue number filling 4 columns, coordinate outside 8 columns, insertion code, digit "
        "chain id, 4-char atom name, 4-char residue name, HETATM, blank chain) x 4 flag combinations of "
        "--whitespace/--keep-chain, written by the real formatter and print_pqr and read back three ways. "
        "end-to-end: generated structures with renumbering / insertion codes / offsets run through main_driver. "
        "Non-trivial: record with a hostile feature or a 4-char name; distinct = (layout, chain flag, feature, "
        "record type, name length, residue-name length)"
        ' Round-2 additions: --ffout naming schemes in the end-to-end runs (per-atom residue names under CHARMM).'
        ' Round-3/4 additions: residue / atom names with +, -, _ from the shipped force fields; alternate-location flags on generated records and alt-loc inputs; titrated-state names under --ffout.')
ASSUMPTIONS = ["fixed-column layout as documented in docs/source/formats/pqr.rst and written by get_pqr_string",
               "charges within +-9.9999 and radii < 10 (the property's quantifier)"]
MIN = {"quick": {"records_compared": 15000, "own_reader_records": 5000, "e2e_runs": 30, "e2e_altloc_inputs": 6, "e2e_cif_inputs": 4},
       "thorough": {"records_compared": 600000, "own_reader_records": 200000, "e2e_runs": 800, "e2e_altloc_inputs": 500, "e2e_cif_inputs": 300}}

FEATURES = ["plain", "plain", "serial-big", "resseq-big", "resseq-4col", "coord-big", "icode", "digit-chain",
            "name4", "resn4", "hetatm", "blank-chain", "neg-coords", "punct-names", "altloc-flag"]


def cases(tier, seed):
    n, per = (16, 1200) if tier == "quick" else (1600, 5000)
    out = [{"kind": "direct", "seed": seed * 3001 + i, "n": per} for i in range(n)]
    ne = 60 if tier == "quick" else 6000
    rng = random.Random(seed)
    for i in range(ne):
        flags = [f for f in ("--whitespace", "--keep-chain") if rng.random() < 0.5]
        if rng.random() < 0.45:
            # output naming schemes rename per atom (CHARMM: DISU / TER residue names inside one residue)
            flags.append("--ffout=" + rng.choice(["CHARMM", "CHARMM", "AMBER", "PARSE", "TYL06", "PEOEPB", "SWANSON"]))
        out.append({"kind": "e2e", "w": "synth", "seed": seed * 4001 + i, "ff": common.FFS[i % 6],
                    "p": {"maxlen": 5, "na_prob": 0.1, "waters": [0, 2], "variant_prob": 0.35}, "mut": rng.choice(["none", "resseq4",
                                                                                            "icode", "offset", "negnum"]),
                    "opts": [f"--ff={common.FFS[i % 6]}"] + flags})
        if i % 10 == 3:
            # fixed-column output of an mmCIF input under an output naming scheme (the writer's mmCIF path meets
            # renamed residues and atoms: CHARMM writes terminal atoms under the residue name TER)
            out[-1].update(enc="cif", mut="none",
                           opts=[f"--ff={common.FFS[i % 6]}", "--ffout=" + ["CHARMM", "CHARMM", "AMBER"][(i // 10) % 3]] +
                           (["--keep-chain"] if (i // 10) % 2 else []))
    return out


def fits8(v):
    return len("%8.3f" % v) <= 8


def gen_atom(rng, feature):
    from pdb2pqr.structures import Atom
    a = Atom()
    a.type = "HETATM" if feature == "hetatm" or rng.random() < 0.1 else "ATOM"
    a.serial = rng.randint(1, 99999)
    a.name = rng.choice(["N", "CA", "C", "O", "CB", "OG1", "HB2", "H", "P", "O1P", "C5'", "O"])
    a.res_name = rng.choice(["ALA", "GLY", "WAT", "HIS", "DA", "RG", "U", "LIG"])
    a.chain_id = rng.choice(["A", "B", "Z", "a"])
    a.res_seq = rng.randint(-99, 999)
    a.ins_code = ""
    a.x, a.y, a.z = (round(rng.uniform(-99, 999), rng.choice([3, 6])) for _ in range(3))
    a.ffcharge = round(rng.uniform(-9.9999, 9.9999), rng.choice([4, 6])) if rng.random() < 0.9 else rng.choice([0.0, -1.0, 1.0])
    a.radius = round(rng.uniform(0, 9.9999), 4)
    if feature == "serial-big":
        a.serial = rng.choice([100000, 100001, 123456, 999999, rng.randint(100000, 5000000)])
    elif feature == "resseq-big":
        a.res_seq = rng.choice([10000, 12345, 99999, -1000, -12345, rng.randint(10000, 99999)])
    elif feature == "resseq-4col":
        a.res_seq = rng.choice([1000, 9999, -100, -999, rng.randint(1000, 9999), -rng.randint(100, 999)])
    elif feature == "coord-big":
        k = rng.randrange(3)
        v = rng.choice([10000.123, -1000.123, 99999.456, -99999.456, 12345.678, rng.uniform(10000, 99999),
                        -rng.uniform(1000, 99999)])
        setattr(a, "xyz"[k], round(v, 3))
    elif feature == "neg-coords":
        a.x, a.y, a.z = (round(-rng.uniform(100, 999.99), 3) for _ in range(3))
    elif feature == "icode":
        a.ins_code = rng.choice("ABCXZ")
    elif feature == "digit-chain":
        a.chain_id = rng.choice("0123456789")
    elif feature == "name4":
        a.name = rng.choice(["HD21", "HH12", "H5''", "HO2'", "1HD2", "OP1X", "HG11"])
    elif feature == "resn4":
        a.res_name = rng.choice(["NALA", "CHIP", "CASH", "NPRO"])
    elif feature == "blank-chain":
        a.chain_id = ""
    elif feature == "altloc-flag":
        # the model atom still carries an alternate-location flag (lone flags, nucleic / ligand conformers); the PQR
        # layout has no such column
        a.alt_loc = rng.choice(["A", "B", "1", "X"])
        if rng.random() < 0.5:
            a.res_name = rng.choice(["SER", "DA", "U", "LIG", "HOH"])
    elif feature == "punct-names":
        # residue / atom names of the shipped force fields and naming schemes that carry +, -, _ (TY-, CY-, HI+, Na+)
        a.res_name = rng.choice(["TY-", "CY-", "HI+", "BK+", "BK-", "PR+", "PR-", "N-M", "MP_0", "Na+", "Cl-"])
        if rng.random() < 0.4:
            a.name = rng.choice(["Na+", "Cl-", "K+", "NH5s", "Li+"])
    return a


def model_fields(a, chainflag):
    return {"rec": a.type, "serial": a.serial, "name": a.name, "resn": a.res_name,
            "chain": (a.chain_id if chainflag else ""), "resi": a.res_seq, "x": a.x, "y": a.y, "z": a.z,
            "q": a.ffcharge if a.ffcharge is not None else 0.0, "r": a.radius if a.radius is not None else 0.0,
            "icode": a.ins_code}


def read_fixed(line):
    return {"rec": line[0:6].strip(), "serial": int(line[6:11]), "name": line[12:16].strip(),
            "resn": line[16:20].strip(), "chain": line[21:22].strip(), "resi": int(line[22:26]),
            "icode": line[26:27].strip(), "x": float(line[30:38]), "y": float(line[38:46]), "z": float(line[46:54]),
            "q": float(line[54:62]), "r": float(line[62:69])}


def read_tokens(line, chainflag):
    """Plain whitespace tokenisation as the format documents it: record serial name resName [chain] resSeq x y z q r"""
    w = line.split()
    d = {"rec": w[0], "serial": int(w[1]), "name": w[2], "resn": w[3]}
    k = 4
    if chainflag:
        d["chain"] = w[k]
        k += 1
    else:
        d["chain"] = ""
    d["resi"] = int(w[k])
    vals = w[k + 1:]
    if len(vals) != 5:
        raise ValueError(f"{len(vals)} numeric tokens after resSeq")
    d["x"], d["y"], d["z"], d["q"], d["r"] = (float(v) for v in vals)
    return d


def compare(model, got, fields=("rec", "serial", "name", "resn", "chain", "resi", "x", "y", "z", "q", "r")):
    bad = []
    for f in fields:
        m, g = model[f], got.get(f)
        if f in ("x", "y", "z"):
            ok = g is not None and abs(m - g) <= 0.001 + 1e-9
        elif f in ("q", "r"):
            ok = g is not None and abs(m - g) <= 0.0001 + 1e-9
        else:
            ok = (m == g) or (f == "chain" and (m or "") == (g or ""))
        if not ok:
            bad.append((f, m, g))
    return bad


MECHS = [
    # (key, feature, layout predicate, allowed (reader, field) predicate)
    ("width/serial>=100000-truncated-to-5-columns", "serial-big", lambda lay: True,
     lambda reader, fld: fld == "serial"),
    ("width/resSeq-outside-4-columns-truncated", "resseq-big", lambda lay: True,
     lambda reader, fld: fld == "resi"),
    ("width/resSeq-outside-4-columns-truncated", "resseq-big", lambda lay: lay == "ws+chain",
     lambda reader, fld: fld in ("unreadable", "exception", "chain")),
    ("width/coordinate-outside-8-columns-truncated", "coord-big", lambda lay: True,
     lambda reader, fld: fld == "coord"),
    ("whitespace/insertion-code-glued-to-resSeq", "icode", lambda lay: lay.startswith("ws"),
     lambda reader, fld: fld in ("unreadable", "exception", "resi")),
    ("whitespace+keep-chain/full-width-resSeq-glued-to-chain", "resseq-4col", lambda lay: lay == "ws+chain",
     lambda reader, fld: fld in ("unreadable", "exception", "chain", "resi")),
    ("whitespace+keep-chain/digit-chain-id-read-as-resSeq", "digit-chain", lambda lay: lay == "ws+chain",
     lambda reader, fld: reader == "own"),
]


def mech_for(layout, feature, reader, fld):
    """Mechanism key of a read-back mismatch.  A mismatch outside the field set a width/glue mechanism explains
    gets its own (unlisted) key, so it is reported even on records that also carry a hostile feature."""
    feats = set(feature.split("+"))
    for key, feat, laypred, fldpred in MECHS:
        if feat in feats and laypred(layout) and fldpred(reader, fld):
            return key
    return f"{layout}/{feature}/{reader}-reader/{fld}"


def run_direct(spec, res):
    from pdb2pqr import io as pio
    from pdb2pqr import main as pmain
    rng = random.Random(spec["seed"])
    wdir = Path(tempfile.mkdtemp(prefix="c08", dir=str(common.workdir("c08"))))
    try:
        for whitespace in (False, True):
            for chainflag in (False, True):
                layout = ("ws" if whitespace else "fixed") + ("+chain" if chainflag else "")
                atoms, feats = [], []
                for _ in range(spec["n"] // 4):
                    f = rng.choice(FEATURES)
                    atoms.append(gen_atom(rng, f))
                    feats.append(f)
                lines = [a.get_pqr_string(chainflag=chainflag) + "\n" for a in atoms] + ["TER\n", "END"]
                out = wdir / f"{layout}.pqr"
                args = argparse.Namespace(output_pqr=str(out), whitespace=whitespace)
                pmain.print_pqr(args=args, pqr_lines=lines, header_lines="", missing_lines=None, is_cif=False)
                text = out.read_text()
                alines = [ln for ln in text.split("\n") if ln.startswith(("ATOM", "HETATM"))]
                if len(alines) != len(atoms):
                    res.violate(f"{layout}/line-count", f"{len(alines)} atom lines for {len(atoms)} atoms", layout=layout)
                    continue
                for a, f, ln in zip(atoms, feats, alines):
                    m = model_fields(a, chainflag)
                    res.count("records_compared")
                    res.cell(layout, f)
                    if f != "plain" or len(a.name) == 4:
                        res.nt(layout, f, a.type, len(a.name), len(a.res_name))
                    wit = {"layout": layout, "feature": f, "line": ln, "model": {k: m[k] for k in m}}
                    try:
                        got = read_tokens(ln, chainflag and bool(a.chain_id)) if whitespace else read_fixed(ln)
                        for fld, mv, gv in compare(m, got):
                            cls = "coord" if fld in "xyz" else fld
                            res.violate(mech_for(layout, f, "ref", cls), f"{fld}: model {mv!r} read back {gv!r} from {ln!r}", **wit)
                    except (ValueError, IndexError) as e:
                        res.violate(mech_for(layout, f, "ref", "unreadable"), f"{type(e).__name__}: {e} for {ln!r}", **wit)
                    if whitespace:
                        res.count("own_reader_records")
                        try:
                            ra = pio.read_pqr(_io.StringIO(ln + "\n"))[0]
                            got = {"rec": ra.type, "serial": ra.serial, "name": ra.name, "resn": ra.res_name,
                                   "chain": ra.chain_id or "", "resi": ra.res_seq, "x": ra.x, "y": ra.y, "z": ra.z,
                                   "q": ra.charge, "r": ra.radius}
                            for fld, mv, gv in compare(m, got):
                                cls = "coord" if fld in "xyz" else fld
                                res.violate(mech_for(layout, f, "own", cls),
                                            f"io.read_pqr {fld}: model {mv!r} read {gv!r} from {ln!r}", **wit)
                        except Exception as e:  # noqa: BLE001
                            res.violate(mech_for(layout, f, "own", "exception"), f"io.read_pqr raised {type(e).__name__}: "
                                        f"{e} on {ln!r}", **wit)
        res.sample = {"kind": "direct", "layout": layout, "last_line": alines[-1], "feature": feats[-1]}
    finally:
        common.wipe(wdir)


def mutate_numbering(items, mut, rng):
    if mut == "none":
        return
    resmap = {}
    for a in pdbfmt.atoms_of(items):
        resmap.setdefault((a["chain"], a["resi"], a["icode"]), []).append(a)
    keys = list(resmap)
    if mut == "resseq4":
        base = rng.choice([1000, 5000, 9990 - len(keys)])
        for i, k in enumerate(keys):
            for a in resmap[k]:
                a["resi"] = base + i
    elif mut == "negnum":
        for i, k in enumerate(keys):
            for a in resmap[k]:
                a["resi"] = -150 + i
    elif mut == "icode":
        for i, k in enumerate(keys):
            if i % 3 == 1:
                for a in resmap[k]:
                    a["resi"] = resmap[keys[i - 1]][0]["resi"]
                    a["icode"] = "A"
    elif mut == "offset":
        off = [rng.choice([-900.0, 2000.0, 9000.0, 500.0]) for _ in range(3)]
        for a in pdbfmt.atoms_of(items):
            a["x"] += off[0]
            a["y"] += off[1]
            a["z"] += off[2]


def feature_of_atom(a):
    fs = []
    if not -999 <= a.res_seq <= 9999:
        fs.append("resseq-big")
    elif a.res_seq >= 1000 or a.res_seq <= -100:
        fs.append("resseq-4col")
    if a.ins_code:
        fs.append("icode")
    if not all(fits8(v) for v in (a.x, a.y, a.z)):
        fs.append("coord-big")
    if a.chain_id and a.chain_id in "0123456789":
        fs.append("digit-chain")
    return "+".join(fs) or "plain"


def run_e2e(spec, res):
    m = workload.materialise(spec)
    rng = random.Random(spec["seed"] + 5)
    mutate_numbering(m["items"], spec["mut"], rng)
    text = pdbfmt.to_text(m["items"])
    if spec["seed"] % 4 == 1:
        # alternate locations (paired and lone flags) on protein, nucleic and water atoms
        from ..gen import pdbtext
        text, _info = pdbtext.apply(m["items"], [rng.choice(["altloc_interleaved", "altloc_blocked"])], rng)
        res.count("e2e_altloc_inputs")
    suffix = ".pdb"
    if spec.get("enc") == "cif" or (spec["seed"] % 4 == 3 and spec["mut"] in ("none", "icode", "negnum")):
        # the same records through the mmCIF reader (the writer takes another path for mmCIF input: no TER lines)
        from ..gen import cifwriter
        its = [dict(a, chain=a["chain"] or "A") if isinstance(a, dict) else a for a in m["items"]]
        text = cifwriter.write(its, label_auth="wwpdb")
        suffix = ".cif"
        res.count("e2e_cif_inputs")
    r = pipeline.run(text, spec["opts"], workname="c08", suffix=suffix)
    if not r.ok:
        res.count("e2e_failed")
        res.note(f"{spec['mut']} {spec['opts']}: {type(r.exc).__name__} {str(r.exc)[:80]}")
        return
    res.count("e2e_runs")
    whitespace = "--whitespace" in spec["opts"]
    chainflag = "--keep-chain" in spec["opts"]
    layout = "e2e-" + ("ws" if whitespace else "fixed") + ("+chain" if chainflag else "")
    missed = {id(a) for a in (r.missed or [])}
    written = [a for a in r.bio.atoms if id(a) not in missed]
    alines = [ln for ln in r.pqr_text.split("\n") if ln.startswith(("ATOM", "HETATM"))]
    if len(alines) != len(written):
        res.violate(f"{layout}/line-count", f"{len(alines)} atom lines, {len(written)} matched atoms", opts=spec["opts"])
        return
    res.nt(layout, spec["mut"])
    for i, (a, ln) in enumerate(zip(written, alines)):
        mf = model_fields(a, chainflag)
        mf["serial"] = i + 1
        f = feature_of_atom(a)
        res.count("records_compared")
        res.cell(layout, f)
        wit = {"layout": layout, "feature": f, "line": ln, "opts": spec["opts"], "mut": spec["mut"]}
        try:
            got = read_tokens(ln, chainflag and bool(a.chain_id)) if whitespace else read_fixed(ln)
            for fld, mv, gv in compare(mf, got):
                cls = "coord" if fld in "xyz" else fld
                res.violate(mech_for(layout[4:], f, "ref", cls), f"{fld}: model {mv!r} read back {gv!r} from {ln!r}", **wit)
        except (ValueError, IndexError) as e:
            res.violate(mech_for(layout[4:], f, "ref", "unreadable"), f"{type(e).__name__}: {e} for {ln!r}", **wit)
    if whitespace:
        from pdb2pqr import io as pio
        try:
            back = pio.read_pqr(_io.StringIO(r.pqr_text))
            res.count("own_reader_files")
            if len(back) != len(written):
                res.violate(f"{layout[4:]}/own-reader/count", f"io.read_pqr gave {len(back)} atoms of {len(written)}")
        except Exception as e:  # noqa: BLE001
            feats = {feature_of_atom(a) for a in written}
            key = "+".join(sorted(feats - {"plain"})) or "plain"
            res.violate(mech_for(layout[4:], key, "own", "exception"), f"io.read_pqr raised {type(e).__name__}: {e}",
                        opts=spec["opts"], mut=spec["mut"])
    res.sample = {"kind": "e2e", "opts": spec["opts"], "mut": spec["mut"], "lines": alines[:2]}


def setup_worker():
    import logging
    logging.getLogger().setLevel(logging.CRITICAL)


def run_case(spec):
    res = Res()
    if spec["kind"] == "direct":
        run_direct(spec, res)
    else:
        run_e2e(spec, res)
    return res
