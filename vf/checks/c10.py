"""C10 - mmCIF and PDB encodings of one structure give the same result.

Differential execution: every generated structure is written as PDB (our column writer) and as mmCIF (our
independent atom_site writer) and both are run through the real main_driver; the written atoms are compared as
multisets of (resName, resSeq, atom name, x, y, z, charge, radius).
"""
import random
from collections import Counter

from .. import common, pipeline
from ..gen import cifwriter, pdbfmt, pdbtext, workload
from ..run import Res

ID = "C10"
LEVEL = "exploration"
EVAL_COUNTER = "pairs"
RULE = ("generated structures (peptides with variants and pre-existing hydrogens, nucleic strands with 4-character "
        "atom names, waters, hetero groups, fragments of local PDB files) mutated with alt-locs (interleaved/blocked), "
        "insertion codes, negative numbers, 1-3 models, formal-charge columns, offsets to -999; written as PDB and as "
        "mmCIF with '.'/'?' marker conventions swapped and with wwPDB-style label ids (fresh label_asym_id per hetero "
        "group, label_seq_id 1..n); x six force fields x option variants. Non-trivial: structure with >= 1 of "
        "{alt-loc, insertion code, multi-model, 4-char name, negative coordinate <= -100, label!=auth}; distinct = "
        "(feature set, marker convention, label scheme, force field, option variant)"
        ' Round-3/4 additions: _atom_site layout variation (short, no entity items, extra esd items, shuffled); alias atom names.')
ASSUMPTIONS = ["only the installed mmcif-pdbx 2.1.0 can be exercised; 'any supported version' is covered only in that the "
               "writer emits both missing-value marker conventions ('.' and '?') for every optional item",
               "chain labels and TER placement may differ between the two readers; atoms are compared as multisets"]
MIN = {"quick": {"pairs": 70, "atoms_compared": 6000, "pairs_with_altloc": 8, "pairs_with_icode": 6,
                 "pairs_multimodel": 6, "pairs_label_ne_auth": 15, "pairs_hetatm_flagged_residue": 6},
       "thorough": {"pairs": 1800, "atoms_compared": 150000, "pairs_with_altloc": 200, "pairs_with_icode": 150,
                    "pairs_multimodel": 150, "pairs_label_ne_auth": 400, "pairs_hetatm_flagged_residue": 150}}


def cases(tier, seed):
    n = 96 if tier == "quick" else 16000
    out = []
    for i in range(n):
        out.append({"w": "frag" if i % 4 == 3 else "synth", "seed": seed * 15013 + i, "ff": common.FFS[i % 6],
                    "p": {"maxlen": 6, "na_prob": 0.3 if i % 3 == 0 else 0.1, "waters": [0, 2, 4], "variant_prob": 0.15,
                          "hydrogens": ["none", "all", "some"], "alias_prob": 0.2}})
    return out


def key(a):
    resn = "WAT" if a["resn"] in ("HOH", "WAT") else a["resn"]
    return (resn, a["resi"], a["name"], a["xs"], a["ys"], a["zs"], a["qs"], a["rs"])


def run_case(spec):
    res = Res()
    rng = random.Random(spec["seed"])
    m = workload.materialise(spec)
    items = m["items"]
    # a blank chain id has no mmCIF counterpart: structures 'expressible in both formats' carry explicit ids
    for a in pdbfmt.atoms_of(items):
        if not a["chain"]:
            a["chain"] = "W"
    feats = []
    muts = []
    if rng.random() < 0.2:
        # a standard residue inside (or at the start of) a polymer chain carries the HETATM record type, the way
        # modified residues and caps are deposited: the record type is a per-row label, the row order is the file's
        aa = [k for k, t in enumerate(m["truth"]) if t["kind"] == "aa"]
        if aa:
            picks = set(rng.sample(aa, min(len(aa), rng.randint(1, 2))))
            ids = {(m["truth"][k]["chain"] or "W", m["truth"][k]["resi"], m["truth"][k]["icode"]) for k in picks}
            hit = 0
            for a in pdbfmt.atoms_of(items):
                if (a["chain"], a["resi"], a["icode"]) in ids and a["rec"] == "ATOM":
                    a["rec"] = "HETATM"
                    hit += 1
            if hit:
                feats.append("hetflag")
    c = rng.random()
    if c < 0.2:
        muts.append(rng.choice(["altloc_interleaved", "altloc_blocked"]))
        feats.append("altloc")
    if rng.random() < 0.15:
        muts.append("icodes")
        feats.append("icode")
    if rng.random() < 0.15:
        muts.append("negative_numbers")
    # structural mutations through the item-level part of the text mutator (we need items, not text)
    if muts:
        text0, _ = pdbtext.apply(items, muts, random.Random(spec["seed"] + 1))
        items = [dict(a, elem=pdbfmt.guess_element(a["name"]), occ=1.0, b=0.0, seg="", chg="") for a in
                 pdbfmt.read_first_model(text0)]
        # re-insert TER between chains / segments
        out, seg = [], None
        for a in items:
            if seg is not None and a["seg"] != seg:
                out.append("TER")
            seg = a["seg"]
            out.append(a)
        items = out + ["TER", "END"]
        # keep alt-loc occupancies
    if rng.random() < 0.2:
        off = [-rng.uniform(300, 900) for _ in range(3)]
        for a in pdbfmt.atoms_of(items):
            a["x"], a["y"], a["z"] = a["x"] + off[0], a["y"] + off[1], a["z"] + off[2]
        feats.append("negcoord")
    if rng.random() < 0.15:
        for a in pdbfmt.atoms_of(items):
            if a["name"] in ("NZ", "OD2", "OE2") and rng.random() < 0.7:
                a["chg"] = "1+" if a["name"] == "NZ" else "1-"
        feats.append("formal_charge")
    if any(len(a["name"]) == 4 for a in pdbfmt.atoms_of(items)):
        feats.append("name4")
    nmodels = 1
    if rng.random() < 0.15:
        nmodels = rng.randint(2, 3)
        feats.append("multimodel")
        body = [it for it in items if it != "END"]
        allm = []
        numbers = rng.choice([list(range(1, nmodels + 1)), list(range(9, 9 + nmodels)), [2, 10, 11][:nmodels],
                              list(range(nmodels, 0, -1))])
        uneven = rng.random() < 0.5
        for k in range(nmodels):
            allm.append("MODEL     %4d" % numbers[k])
            bk = list(body)
            if uneven and k > 0:
                # models of different size (different solvent per model): legal in both formats
                atoms_k = [it for it in bk if isinstance(it, dict)]
                if rng.random() < 0.5 and len(atoms_k) > 12:
                    lastres = (atoms_k[-1]["chain"], atoms_k[-1]["resi"], atoms_k[-1]["icode"])
                    bk = [it for it in bk if not (isinstance(it, dict) and (it["chain"], it["resi"], it["icode"]) == lastres)]
                else:
                    a0 = atoms_k[-1]
                    extra = [dict(a0, rec="HETATM", name="O", resn="HOH", chain=a0["chain"] or "W", resi=900 + j, icode="",
                                  alt="", x=a0["x"] + 9.0 + 3 * j, y=a0["y"] + 7.0, z=a0["z"] - 8.0, elem="O")
                             for j in range(rng.randint(1, 3))]
                    e = max(i for i, it in enumerate(bk) if isinstance(it, dict)) + 1
                    bk[e:e] = extra
            for it in bk:
                if isinstance(it, dict):
                    allm.append(dict(it, x=it["x"] + 1.37 * k, y=it["y"] - 0.61 * k, z=it["z"] + 0.29 * k))
                else:
                    allm.append(it)
            allm.append("ENDMDL")
        if uneven:
            feats.append("uneven_models")
        items = allm + ["END"]
    pdbfmt.renumber(items)
    label = rng.choice(["same", "wwpdb", "wwpdb"])
    if label == "wwpdb":
        feats.append("label_ne_auth")
    markers = rng.choice([(".", "?", "?"), ("?", ".", "."), (".", ".", "?"), ("?", "?", ".")])
    pdb_text = pdbfmt.to_text(items)
    layout = rng.choice(["wwpdb", "wwpdb", "short", "noentity", "extra", "shuffled"])
    if layout != "wwpdb":
        feats.append("layout")
    cif_text = cifwriter.write(items, missing_alt=markers[0], missing_ins=markers[1], missing_chg=markers[2],
                               label_auth=label, layout=layout, rng=random.Random(spec["seed"] + 9))
    variant = rng.choice([[], [], ["--noopt"], ["--nodebump"], ["--whitespace"], ["--drop-water"], ["--keep-chain"]])
    opts = [f"--ff={spec['ff']}"] + variant
    ra = pipeline.run(pdb_text, opts, workname="c10")
    rb = pipeline.run(cif_text, opts, suffix=".cif", workname="c10")
    wit = {"features": feats, "markers": markers, "label": label, "layout": layout, "opts": opts, "seed": spec["seed"], "w": spec["w"],
           "pdb_head": pdb_text[:800], "cif_atom_rows": [ln for ln in cif_text.splitlines() if ln.startswith(("ATOM", "HETATM"))][:6]}
    fkey = "+".join(sorted(feats)) or "plain"
    res.count("pairs")
    for f, cname in (("altloc", "pairs_with_altloc"), ("icode", "pairs_with_icode"), ("multimodel", "pairs_multimodel"),
                     ("label_ne_auth", "pairs_label_ne_auth"), ("hetflag", "pairs_hetatm_flagged_residue")):
        if f in feats:
            res.count(cname)
    res.cell(fkey, label, spec["ff"])
    if feats:
        res.nt(fkey, markers, label, spec["ff"], tuple(variant))
    if ra.ok != rb.ok:
        which = "cif" if ra.ok else "pdb"
        bad = rb if ra.ok else ra
        res.violate(f"pair/{which}-run-fails/{primary(feats)}", f"the {which} encoding fails with {type(bad.exc).__name__}: "
                    f"{str(bad.exc)[:100]} while the other encoding succeeds", **wit)
        return res
    if not ra.ok:
        res.count("both_failed")
        return res
    ws = "--whitespace" in variant
    pa = pipeline.parse_pqr(ra.pqr_text, whitespace=ws)
    pb = pipeline.parse_pqr(rb.pqr_text, whitespace=ws)
    ca, cb = Counter(key(a) for a in pa), Counter(key(a) for a in pb)
    res.count("atoms_compared", sum(ca.values()))
    if ca != cb:
        only_pdb, only_cif = ca - cb, cb - ca
        res.violate(f"pair/atoms-differ/{primary(feats)}", f"{sum(ca.values())} atoms from PDB, {sum(cb.values())} from "
                    f"mmCIF; only in PDB result: {list(only_pdb)[:3]}; only in mmCIF result: {list(only_cif)[:3]}", **wit)
    if not rb.pqr_text.rstrip().endswith("#"):
        res.violate("cif/trailer-missing", "mmCIF-flavoured output does not end with '#'", **wit)
    res.sample = {"features": feats, "markers": markers, "label": label, "opts": opts, "atoms": sum(ca.values())}
    return res


def primary(feats):
    for f in ("multimodel", "altloc", "icode", "label_ne_auth", "name4", "negcoord", "formal_charge"):
        if f in feats:
            return f
    return "plain"


def setup_worker():
    import logging
    logging.getLogger().setLevel(logging.CRITICAL)
