"""C12 - runs succeed on well-formed input, otherwise fail loudly leaving no output.

Success side: every standard residue / nucleotide x chain position x built-in force field cell in a minimal
structure of its own (so a failure is attributed by construction), plus mixed structures.
Failure side (fault enumeration): natural faults, exceptions injected at each stage function on its k-th call, and
source-free random failpoints (sys.monitoring LINE events raise at a random statement before print_pqr).  Oracle:
an audit hook records every write-open of the output path together with the stage, and the path is compared
before/after (absent stays absent; a pre-seeded sentinel keeps bytes and mtime); a run that returns normally must
have written a complete file.
"""
import hashlib
import os

import numpy as np
import random
import subprocess
import sys
import time
from pathlib import Path

from .. import common, pipeline
from ..gen import pdbfmt, workload
from ..gen import structures as S
from ..mon import pkastub
from ..mon import match
from ..ref import topology as topo
from ..run import Res

ID = "C12"
LEVEL = "fault_enumeration"
EVAL_COUNTER = "executions"
RULE = ("success cells: (force field x standard residue x position N/I/C) tripeptides, (force field x nucleotide x "
        "position) strands, waters, option variants neutraln/neutralc (PARSE) - one cell per run; mixed standard "
        "structures. faults: natural (bad options/files, empty/garbage/unreadable input, no heavy atoms, missing "
        "backbone, over the repair limit, non-integral user force field, broken names XML, bad MOL2), stage faults "
        "(each stage function x exception type x k-th call), random LINE failpoints before print_pqr; both absent "
        "and pre-seeded output paths; API and CLI entry. Non-trivial: a fault that actually fired (or a natural "
        "fault); distinct = (fault class, stage or statement module, exception type, sentinel mode, entry)"
        ' Round-2 additions: option lattice on well-formed titratable-rich structures (noopt x pKa route x drop-water x force field, other output options on top): a run that fails although the same structure succeeds with --ff alone is a violation; alias names, insertion codes and gaps in the mixed structures.'
        " Round-3/4 additions: --assign-only round trips on the run's own --pdb-output; chain-topology stressors; unequal carboxyl C-O bonds in the option lattice; the non-integral user force field fault on systems with 150-650 waters.")
ASSUMPTIONS = ["stages named by the property end where print_pqr is entered; I/O faults during the final write are "
               "outside its stage list and are not injected",
               "a fault swallowed by the code's own handler followed by a complete file is a legitimate success"]
MIN = {"quick": {"success_cells": 330, "natural_faults": 25, "stage_faults_fired": 70, "line_faults_fired": 120,
                 "failed_runs_checked": 200, "audit_events": 200, "option_lattice_runs": 150, "assign_only_roundtrips": 15},
       "thorough": {"success_cells": 3000, "natural_faults": 200, "stage_faults_fired": 600, "line_faults_fired": 2500,
                    "failed_runs_checked": 3000, "audit_events": 3000, "option_lattice_runs": 5000, "assign_only_roundtrips": 1200}}

NA_SUPPORT = {"AMBER": "ACGUT", "CHARMM": "ACGUT", "TYL06": "ACGUT", "PARSE": "ACGU"}
SENTINEL = b"SENTINEL previous contents of the output path\n" * 3

STAGES = [
    ("pdb2pqr.main", "transform_arguments"), ("pdb2pqr.main", "check_files"), ("pdb2pqr.main", "check_options"),
    ("pdb2pqr.io", "get_definitions"), ("pdb2pqr.io", "get_molecule"), ("pdb2pqr.pdb", "read_pdb"),
    ("pdb2pqr.main", "drop_water"), ("pdb2pqr.main", "setup_molecule"),
    ("pdb2pqr.biomolecule", "Biomolecule.set_termini"), ("pdb2pqr.biomolecule", "Biomolecule.update_bonds"),
    ("pdb2pqr.main", "non_trivial"), ("pdb2pqr.forcefield", "Forcefield.__init__"),
    ("pdb2pqr.hydrogens", "create_handler"), ("pdb2pqr.main", "is_repairable"),
    ("pdb2pqr.biomolecule", "Biomolecule.repair_heavy"), ("pdb2pqr.biomolecule", "Biomolecule.update_ss_bridges"),
    ("pdb2pqr.debump", "Debump.debump_biomolecule"), ("pdb2pqr.biomolecule", "Biomolecule.remove_hydrogens"),
    ("pdb2pqr.main", "run_propka"), ("pdb2pqr.biomolecule", "Biomolecule.apply_pka_values"),
    ("pdb2pqr.biomolecule", "Biomolecule.add_hydrogens"),
    ("pdb2pqr.hydrogens", "HydrogenRoutines.set_optimizeable_hydrogens"),
    ("pdb2pqr.hydrogens", "HydrogenRoutines.initialize_full_optimization"),
    ("pdb2pqr.hydrogens", "HydrogenRoutines.initialize_wat_optimization"),
    ("pdb2pqr.hydrogens", "HydrogenRoutines.optimize_hydrogens"), ("pdb2pqr.hydrogens", "HydrogenRoutines.cleanup"),
    ("pdb2pqr.biomolecule", "Biomolecule.set_states"), ("pdb2pqr.biomolecule", "Biomolecule.apply_force_field"),
    ("pdb2pqr.main", "noninteger_charge"), ("pdb2pqr.biomolecule", "Biomolecule.apply_name_scheme"),
    ("pdb2pqr.io", "print_pqr_header"), ("pdb2pqr.io", "print_biomolecule_atoms"),
    ("pdb2pqr.biomolecule", "Biomolecule.set_hip"), ("pdb2pqr.quatfit", "find_coordinates"),
    ("pdb2pqr.forcefield", "Forcefield.get_params"),
]
EXC = ["ValueError", "RuntimeError", "KeyError", "OSError", "TypeError", "IndexError"]


class Injected(Exception):
    pass


def exc_class(name):
    base = {"ValueError": ValueError, "RuntimeError": RuntimeError, "KeyError": KeyError, "OSError": OSError,
            "TypeError": TypeError, "IndexError": IndexError}[name]
    return type("Injected" + name, (base, Injected), {})


def cases(tier, seed):
    out = []
    reps = 1 if tier == "quick" else 40
    for rep in range(reps):
        for ff in common.FFS:
            for resn in topo.AMINO:
                for pos in "NIC":
                    out.append({"kind": "cell", "ff": ff, "resn": resn, "pos": pos, "seed": seed * 7 + rep, "opts": []})
            for letter in NA_SUPPORT.get(ff, ""):
                for pos in "NIC":
                    for dna in ((False, True) if letter not in "UT" and ff != "PARSE" else (letter == "T",)):
                        out.append({"kind": "nacell", "ff": ff, "letter": letter, "pos": pos, "dna": dna,
                                    "seed": seed * 7 + rep})
        for resn in topo.AMINO:
            out.append({"kind": "cell", "ff": "PARSE", "resn": resn, "pos": "N", "seed": seed + rep, "opts": ["--neutraln"]})
            out.append({"kind": "cell", "ff": "PARSE", "resn": resn, "pos": "C", "seed": seed + rep, "opts": ["--neutralc"]})
    nmix = 40 if tier == "quick" else 8000
    for spec in workload.standard_cases(tier, seed, nmix, nmix, frag_share=0.0,
                                        p={"variant_prob": 0.0, "na_prob": 0.15, "waters": [0, 3], "no_variants": [], "oxt_prob": 1.0,
                                           "alias_prob": 0.15, "icode_prob": 0.15, "gap_prob": 0.1}):
        spec["kind"] = "mixed"
        spec["opts"] = [f"--ff={spec['ff']}"]
        out.append(spec)
    # chain-topology stressors: several molecules under one chain id (ends visible only through OXT), blank and
    # recycled chain ids, single-residue chains - complete standard residues throughout
    nts = 42 if tier == "quick" else 4000
    for i in range(nts):
        ff = common.FFS[i % 6]
        out.append({"kind": "mixed", "w": "topostress", "seed": seed * 7703 + i, "ff": ff,
                    "opts": [["--clean"], [f"--ff={ff}"], [f"--ff={ff}", "--keep-chain"]][(i // 6) % 3], "p": {}})
    # option lattice on well-formed structures: stage switches x pKa route x drop-water for every force field, other
    # output options sprinkled on top; titratable-rich sequences so that titrated states (ASH, GLH, LYN ...) occur
    rng = random.Random(seed * 5 + 2)
    for rep in range(4 if tier == "quick" else 160):
        for ff in common.FFS:
            for bits in range(8):
                o = [f"--ff={ff}"]
                if bits & 1:
                    o.append("--noopt")
                if bits & 2:
                    o += pkastub.titration_opts(rng)
                if bits & 4:
                    o.append("--drop-water")
                for extra in ("--nodebump", "--whitespace", "--keep-chain", "--include-header"):
                    if rng.random() < 0.2:
                        o.append(extra)
                if rng.random() < 0.2:
                    o.append("--ffout=" + rng.choice(common.FFS))
                if ff == "PARSE" and rng.random() < 0.25:
                    o.append(rng.choice(["--neutraln", "--neutralc"]))
                out.append({"kind": "mixedopts", "w": "synth", "seed": seed * 6007 + len(out), "ff": ff, "opts": o,
                            "p": {"variant_prob": 0.0, "na": False, "waters": [0, 3], "no_variants": [], "oxt_prob": 1.0, "minlen": 4,
                                  "carboxyl_asym_prob": 0.5, "maxlen": 7, "pool": ["ASP", "GLU", "HIS", "CYS", "TYR", "LYS", "ARG", "ASP", "GLU",
                                                        "ALA", "SER", "ASN", "GLN", "THR"]}})
    # --assign-only on complete, fully protonated structures (pdb2pqr's own --pdb-output of a full run): every
    # tautomer / protonation state the pipeline itself produces must be accepted back
    na_ = 36 if tier == "quick" else 3000
    for i in range(na_):
        ff = common.FFS[i % 6]
        out.append({"kind": "assignonly", "w": "synth", "seed": seed * 7019 + i, "ff": ff, "opts": [f"--ff={ff}"],
                    "p": {"variant_prob": 0.3, "na": False, "waters": [0, 2], "minlen": 4, "maxlen": 7, "oxt_prob": 1.0,
                          "pool": ["HIS", "HIS", "ASP", "GLU", "CYS", "TYR", "LYS", "ARG", "SER", "THR", "ASN", "GLN",
                                   "ALA", "GLY", "PRO", "TRP"]}})
    rng = random.Random(seed * 3 + 1)
    nat = NATURAL * (1 if tier == "quick" else 40)
    for i, name in enumerate(nat):
        out.append({"kind": "natural", "fault": name, "seed": seed * 11 + i, "sentinel": i % 2 == 0,
                    "entry": "cli" if i % 5 == 0 else "api"})
    nst = 3 if tier == "quick" else 120
    needs = {"run_propka": "propka", "Biomolecule.apply_pka_values": "propka", "Biomolecule.remove_hydrogens": "propka",
             "Biomolecule.set_hip": "assign", "HydrogenRoutines.initialize_wat_optimization": "noopt",
             "Biomolecule.apply_name_scheme": "ffout", "drop_water": "ffout",
             "HydrogenRoutines.set_optimizeable_hydrogens": "plain", "HydrogenRoutines.initialize_full_optimization":
             "plain", "Debump.debump_biomolecule": "plain", "Biomolecule.repair_heavy": "plain",
             "is_repairable": "plain", "Biomolecule.update_ss_bridges": "plain", "Biomolecule.add_hydrogens": "plain",
             "HydrogenRoutines.optimize_hydrogens": "plain", "HydrogenRoutines.cleanup": "plain",
             "find_coordinates": "plain", "create_handler": "plain"}
    multi = {"Debump.debump_biomolecule", "noninteger_charge", "find_coordinates", "Forcefield.get_params"}
    for k in range(nst):
        for si, (mod, fn) in enumerate(STAGES):
            variant = needs.get(fn) if k % 2 == 0 or fn in needs and needs[fn] != "plain" else None
            variant = variant or ["plain", "propka", "noopt", "ffout"][(si + k) % 4]
            if fn in needs and needs[fn] == "plain" and variant in ("assign",):
                variant = "plain"
            out.append({"kind": "stage", "mod": mod, "fn": fn, "exc": EXC[(si + k) % len(EXC)],
                        "nth": ([1, 2, 3][k % 3] if fn in multi else 1),
                        "seed": seed * 17 + k * 100 + si, "sentinel": (si + k) % 2 == 0, "variant": variant})
    nline = 12 if tier == "quick" else 1000
    for i in range(nline):
        out.append({"kind": "line", "seed": seed * 23 + i, "n": 14, "sentinel": i % 2 == 0,
                    "variant": ["plain", "propka", "noopt", "ffout"][i % 4]})
    return out


# ---------------------------------------------------------------------------------------------------------
# observation: audit hook on write-opens of the watched path + stage tracking

WATCH = {"path": None, "events": [], "stage": "idle", "installed": False}


def _audit(event, args):
    if event == "open" and WATCH["path"] is not None:
        try:
            p, mode = args[0], args[1]
            if isinstance(p, (str, bytes, os.PathLike)) and mode and any(c in str(mode) for c in "wax+"):
                if os.path.abspath(os.fspath(p)) == WATCH["path"]:
                    WATCH["events"].append((WATCH["stage"], str(mode)))
        except Exception:  # noqa: BLE001
            pass


def install_watch():
    if WATCH["installed"]:
        return
    sys.addaudithook(_audit)
    import pdb2pqr.main as pmain
    orig_print = pmain.print_pqr
    orig_nt = pmain.non_trivial

    def print_pqr(*a, **k):
        WATCH["stage"] = "print_pqr"
        _disarm_line()
        return orig_print(*a, **k)

    def non_trivial(*a, **k):
        WATCH["stage"] = "non_trivial"
        out = orig_nt(*a, **k)
        WATCH["stage"] = "computed"
        return out

    pmain.print_pqr = print_pqr
    pmain.non_trivial = non_trivial
    WATCH["installed"] = True


def fingerprint(path):
    if not os.path.exists(path):
        return None
    st = os.stat(path)
    return (hashlib.sha1(Path(path).read_bytes()).hexdigest(), st.st_mtime_ns, st.st_size)


def judge(res, r, before, sentinel, kind_key, wit, must_fail=False):
    """The output-path oracle."""
    after = fingerprint(r.out_path)
    res.count("audit_events", len(WATCH["events"]) + 1)
    early = [e for e in WATCH["events"] if e[0] != "print_pqr"]
    if early:
        res.violate(f"output/opened-before-pipeline-returned/{kind_key}", f"write-open of the output path at stage "
                    f"{early[0][0]} (mode {early[0][1]})", **wit)
    if r.ok:
        res.count("runs_completed")
        if must_fail:
            res.violate(f"fault/not-reported/{kind_key}", "the run returned normally although it cannot have produced a "
                        "valid result", **wit)
        text = r.pqr_text
        if after is None or text is None:
            res.violate(f"success/no-file/{kind_key}", "run returned normally but the output file does not exist", **wit)
            return
        lines = text.splitlines()
        natom = sum(1 for ln in lines if ln.startswith(("ATOM", "HETATM")))
        # with --ligand the code also lists written ligand atoms as unassigned: no independent count available
        ligand = any(str(a).startswith("--ligand") for a in (r.argv or []))
        written = len(match.written_atoms(r.bio, r.missed)) if r.bio is not None and not ligand else None
        ws = "--whitespace" in (r.argv or [])
        if (not ws and (not lines or lines[-1].strip() != "END")) or (written is not None and natom != written):
            res.violate(f"success/incomplete-file/{kind_key}", f"file has {natom} atom lines for {written} matched "
                        f"atoms, last line {lines[-1] if lines else None!r}", **wit)
        return
    res.count("failed_runs_checked")
    if after != before:
        what = "created" if before is None else "modified (sentinel changed)" if after is not None else "deleted"
        res.violate(f"failure/output-{'created' if before is None else 'modified'}/{kind_key}",
                    f"run failed with {type(r.exc).__name__} but the output path was {what}", **wit)
    if WATCH["events"]:
        res.violate(f"failure/write-open-observed/{kind_key}", f"failed run opened the output path for writing at "
                    f"{WATCH['events']}", **wit)


def execute(text, opts, sentinel, **kw):
    install_watch()
    WATCH["events"] = []
    WATCH["stage"] = "start"
    pre = SENTINEL if sentinel else None
    # we need the fingerprint *before*: create dir first through pipeline.run(pre_output)
    r = _run_with_fp(text, opts, pre, **kw)
    WATCH["path"] = None
    return r


def _run_with_fp(text, opts, pre, **kw):
    def ready(out):
        WATCH["path"] = os.path.abspath(str(out))
        WATCH["events"] = []

    return pipeline.run(text, opts, pre_output=pre, keep=True, workname="c12", on_ready=ready, **kw)


def check_after(res, r, sentinel, kind_key, wit, must_fail=False):
    try:
        before = (hashlib.sha1(SENTINEL).hexdigest(), 10 ** 18, len(SENTINEL)) if sentinel else None
        judge(res, r, before, sentinel, kind_key, wit, must_fail)
    finally:
        r.cleanup()


# ---------------------------------------------------------------------------------------------------------
def cell_structure(spec):
    rng = random.Random(spec["seed"])
    pad = "ALA"   # padding cells are themselves enumerated (ALA@N/I/C), so a failing cell is attributed by construction
    x = spec["resn"]
    seq = {"N": [x, pad, "ALA"], "I": ["ALA", x, pad], "C": [pad, "ALA", x]}[spec["pos"]]
    pep = S.peptide(seq, rng, hydrogens="none", cterm_oxt=True)
    items, truth = S.assemble([{"id": "A", "start": 1, "residues": pep}])
    return pdbfmt.to_text(items), items, truth


def run_cell(spec, res):
    if spec["kind"] == "cell":
        text, items, truth = cell_structure(spec)
        key = f"{spec['ff']}/{spec['resn']}@{spec['pos']}" + ("".join("/" + o.strip("-") for o in spec["opts"]))
        opts = [f"--ff={spec['ff']}"] + spec["opts"]
    else:
        rng = random.Random(spec["seed"])
        L = spec["letter"]
        other = "A"   # padding nucleotide; its own cells (A@N/I/C) are enumerated too
        seq = {"N": [L, other, other], "I": [other, L, other], "C": [other, other, L]}[spec["pos"]]
        strand = S.nucleic(seq, rng, dna=spec["dna"], first_phosphate=rng.random() < 0.5)
        items, truth = S.assemble([{"id": "A", "start": 1, "residues": strand}])
        text = pdbfmt.to_text(items)
        key = f"{spec['ff']}/{'D' if spec['dna'] and L != 'T' else ('R' if L != 'T' else 'D')}{L}@{spec['pos']}"
        opts = [f"--ff={spec['ff']}"]
    r = execute(text, opts, sentinel=False)
    res.count("executions")
    res.count("success_cells")
    res.cell("success", key)
    res.nt("success", key)
    wit = {"cell": key, "opts": opts, "input": text[:3000]}
    if not r.ok:
        msg = " | ".join(m for lv, _n, m in r.log if lv >= 40)[:200]
        res.violate(f"success/well-formed-input-rejected/{key}", f"{type(r.exc).__name__}: {msg}", **wit)
        check_after(res, r, False, "success-cell", wit)
        return
    check_after(res, r, False, "success-cell", wit)
    res.sample = {"kind": spec["kind"], "cell": key}


def run_mixed(spec, res, known_cells=None):
    m = workload.materialise(spec)
    r = execute(m["text"], spec["opts"], sentinel=False)
    res.count("executions")
    res.count("mixed_runs")
    res.nt("mixed", spec["ff"], spec["seed"])
    if not r.ok:
        msg = " | ".join(mm for lv, _n, mm in r.log if lv >= 40)[:200]
        cells = [f"{spec['ff']}/{t['resn']}@{'N' if t['pos'] == 'NC' else t['pos']}" for t in m["truth"]
                 if t["kind"] in ("aa", "na")]
        # attribute to a cell that is known to fail on its own (listed finding); anything else is unattributed
        from ..run import load_known
        listed = {k["key"] for k in load_known() if k.get("property") == "C12" and k.get("status") == "open"}
        hit = [c for c in sorted(set(cells)) if f"success/well-formed-input-rejected/{c}" in listed]
        key = f"success/well-formed-input-rejected/{hit[0]}" if hit and "deviates by" in msg else \
            "success/mixed-structure-rejected"
        res.violate(key, f"mixed structure: {type(r.exc).__name__}: {msg}", cells=sorted(set(cells)),
                    ff=spec["ff"], seed=spec["seed"])
    check_after(res, r, False, "mixed", {"ff": spec["ff"], "seed": spec["seed"]})


def run_mixedopts(spec, res):
    m = workload.materialise(spec)
    with pkastub.for_opts(spec["opts"], m["truth"], spec["seed"]):
        r = execute(m["text"], spec["opts"], sentinel=False)
    res.count("executions")
    res.count("option_lattice_runs")
    klass = "+".join(sorted({o.split("=")[0].lstrip("-") for o in spec["opts"] if not o.startswith(("--ff=", "--with-ph"))}))
    res.nt("mixedopts", spec["ff"], klass)
    res.cell("opts", spec["ff"], klass.count("noopt"), klass.count("titration"), klass.count("drop-water"))
    failed = not r.ok
    msg = " | ".join(mm for lv, _n, mm in r.log if lv >= 40)[:200]
    exc_name = type(r.exc).__name__
    # judge the output path of this run before anything else touches the watcher
    check_after(res, r, False, "mixedopts", {"ff": spec["ff"], "seed": spec["seed"], "opts": spec["opts"]})
    if failed:
        # does the same structure succeed without the options?  then the options broke a well-formed input
        plain = execute(m["text"], [f"--ff={spec['ff']}"], sentinel=False)
        ok_plain = plain.ok
        plain.cleanup()
        if ok_plain:
            res.violate(f"success/options-make-well-formed-input-fail/{klass}", f"{spec['opts']} on a complete standard "
                        f"structure: {exc_name}: {msg} (the same structure succeeds with --ff alone)",
                        ff=spec["ff"], opts=spec["opts"], seed=spec["seed"],
                        residues=[t["resn"] for t in m["truth"]])
        else:
            res.count("option_lattice_plain_also_fails")
            run_mixed(dict(spec, opts=[f"--ff={spec['ff']}"]), res)


def run_assignonly(spec, res):
    m = workload.materialise(spec)
    rng = random.Random(spec["seed"] + 3)
    first_opts = [f"--ff={spec['ff']}", "--pdb-output={dir}/full.pdb"] + rng.choice([[], [], ["--noopt"], ["--nodebump"]])
    pre = pipeline.run(m["text"], first_opts, workname="c12", keep=True)
    try:
        if not pre.ok:
            res.count("assign_only_first_run_failed")
            return
        full = (pre.dir / "full.pdb").read_text()
    finally:
        pre.cleanup()
    ff2 = spec["ff"] if rng.random() < 0.7 else rng.choice(common.FFS)
    opts = [f"--ff={ff2}", "--assign-only"]
    r = execute(full, opts, sentinel=False)
    res.count("executions")
    res.count("assign_only_roundtrips")
    his = sorted({ln[17:20] + ":" + "".join(sorted(x[12:16].strip() for x in full.splitlines() if x.startswith(("ATOM", "HETATM")) and
                                                  x[17:27] == ln[17:27] and x[12:16].strip() in ("HD1", "HE2")))
                  for ln in full.splitlines() if ln.startswith("ATOM") and ln[17:20] in ("HIS", "HID", "HIE", "HIP")})
    res.nt("assignonly", spec["ff"], ff2, tuple(his))
    res.cell("assignonly", ff2, tuple(his)[:2])
    failed, exc_name = not r.ok, type(r.exc).__name__
    msg = (str(r.exc) + " | " + " | ".join(mm for lv, _n, mm in r.log if lv >= 40))[:200]
    check_after(res, r, False, "assignonly", {"ff": ff2, "seed": spec["seed"], "opts": opts})
    if failed and ff2 == spec["ff"]:
        res.violate(f"success/assign-only-rejects-own-complete-output/{ff2}", f"--assign-only on the --pdb-output of a "
                    f"successful {first_opts} run fails: {exc_name}: {msg}", ff=ff2, first_opts=first_opts,
                    seed=spec["seed"], histidines=his, residues=[t["resn"] for t in m["truth"]])
    elif failed:
        res.count("assign_only_other_ff_failed")
        res.note(f"assign-only under {ff2} on a structure protonated under {spec['ff']} failed: {exc_name} {msg[:80]}")


# ------------------------------------------------------------------------------ natural faults
NATURAL = ["missing_input", "empty_input", "garbage_input", "binary_input", "no_heavy_atoms", "missing_backbone",
           "missing_ca_everywhere", "over_repair_limit", "userff_without_names", "userff_missing_file",
           "usernames_missing_file", "ph_out_of_range", "neutraln_wrong_ff", "neutralc_wrong_ff", "bad_ff_name",
           "nonintegral_userff", "garbage_userff", "broken_names_xml", "ligand_missing_file", "ligand_garbage",
           "ligand_duplicate_names", "unknown_option", "cif_garbage", "input_is_directory", "his_no_h_assign_only",
           "conflicting_clean_userff", "only_waters_dropped", "ter_only", "ligand_partial_nonintegral",
           "ligand_partial_nonintegral", "nonintegral_userff_large", "nonintegral_userff_large",
           "nonintegral_userff_terminal_nucleotide", "nonintegral_userff_terminal_nucleotide",
           "corrupt_coordinate_field", "corrupt_coordinate_field",
           "usernames_points_to_missing_residue", "usernames_points_to_missing_residue",
           "over_repair_limit_protonated", "over_repair_limit_protonated", "only_unknown_residues_as_atom_records"]


def good_text(rng):
    pep = S.peptide(["ALA", "SER", "LYS", "GLY"], rng)
    items, _ = S.assemble([{"id": "A", "start": 1, "residues": pep}])
    return items


def natural(spec, rng):
    """-> (text or None, opts, extra_files, suffix, must_fail, input_name)"""
    f = spec["fault"]
    items = good_text(rng)
    text = pdbfmt.to_text(items)
    extra, suffix, must_fail, opts, input_name = {}, ".pdb", True, ["--ff=AMBER"], None
    amber_dat = (common.REPO / "pdb2pqr/dat/AMBER.DAT").read_text()
    amber_names = (common.REPO / "pdb2pqr/dat/AMBER.names").read_text()
    if f == "missing_input":
        text = None
        input_name = "doesnotexist.pdb"
    elif f == "empty_input":
        text = ""
    elif f == "garbage_input":
        text = "this is not a pdb file\n" * 5 + "ATOM  garbage\n"
    elif f == "binary_input":
        text = bytes(rng.randrange(256) for _ in range(400))
    elif f == "no_heavy_atoms":
        text = "HETATM    1  C1  XYZ A   1       0.000   0.000   0.000  1.00  0.00           C\nEND\n"
    elif f == "missing_backbone":
        text = pdbfmt.to_text([it for it in items if not (isinstance(it, dict) and it["resi"] == 2 and it["name"] in ("N", "CA", "C"))])
    elif f == "missing_ca_everywhere":
        text = pdbfmt.to_text([it for it in items if not (isinstance(it, dict) and it["name"] == "CA")])
    elif f == "over_repair_limit":
        text = pdbfmt.to_text([it for it in items if not (isinstance(it, dict) and it["name"] not in ("N", "CA", "C"))])
    elif f == "over_repair_limit_protonated":
        # a structure that carries its hydrogens (NMR-style, or a re-fed --pdb-output) and lacks 13-25 % of its heavy
        # atoms: beyond the documented repair limit (0.1 of the heavy atoms), however many hydrogens are present
        seq = [rng.choice(["ARG", "LYS", "GLU", "GLN", "MET", "LEU", "PHE", "TYR", "TRP", "ILE"]) for _ in range(rng.randint(8, 12))]
        pep = S.peptide(seq, rng, hydrogens="all")
        its, _ = S.assemble([{"id": "A", "start": 1, "residues": pep}])
        heavy = [it for it in its if isinstance(it, dict) and not it["name"].startswith("H")]
        side = [it for it in heavy if it["name"] not in ("N", "CA", "C", "O", "OXT", "CB")]
        want = int(len(heavy) * rng.uniform(0.13, 0.25)) + 1
        # outermost side-chain atoms first (what weak density removes), never a backbone atom
        side.sort(key=lambda it: (-len(it["name"]), it["name"]), reverse=False)
        drop = {id(it) for it in rng.sample(side, min(len(side), want))}
        text = pdbfmt.to_text([it for it in its if id(it) not in drop])
        opts = ["--ff=" + rng.choice(["AMBER", "PARSE", "CHARMM"])] + rng.choice([[], ["--noopt"], ["--nodebump"]])
    elif f == "only_unknown_residues_as_atom_records":
        # residues no force field knows, written as ATOM records, no --ligand: nothing can be parameterised
        lines = []
        for k in range(rng.randint(1, 3)):
            rn = rng.choice(["XYZ", "LIG", "UNK", "MSE"])
            for j, an in enumerate(["C1", "C2", "O1", "N1"][: rng.randint(1, 4)]):
                lines.append("ATOM  %5d  %-3s %3s A%4d    %8.3f%8.3f%8.3f  1.00  0.00           %s" %
                             (len(lines) + 1, an, rn, k + 1, 1.5 * j, 4.0 * k, 0.0, an[0]))
        text = "\n".join(lines + ["END", ""])
        opts = ["--ff=" + rng.choice(["AMBER", "PARSE", "CHARMM", "SWANSON"])]
    elif f == "userff_without_names":
        extra = {"u.dat": amber_dat}
        opts = ["--userff={dir}/u.dat"]
    elif f == "userff_missing_file":
        opts = ["--userff={dir}/nope.dat", "--usernames={dir}/nope.names"]
    elif f == "usernames_missing_file":
        extra = {"u.dat": amber_dat}
        opts = ["--userff={dir}/u.dat", "--usernames={dir}/nope.names"]
    elif f == "ph_out_of_range":
        opts = ["--ff=AMBER", "--titration-state-method=propka", "--with-ph=" + rng.choice(["15", "-1", "14.01"])]
    elif f == "neutraln_wrong_ff":
        opts = ["--ff=" + rng.choice(["AMBER", "CHARMM", "TYL06"]), "--neutraln"]
    elif f == "neutralc_wrong_ff":
        opts = ["--ff=" + rng.choice(["SWANSON", "PEOEPB"]), "--neutralc"]
    elif f == "bad_ff_name":
        opts = ["--ff=NOSUCHFF"]
    elif f == "nonintegral_userff":
        import re
        bad = re.sub(r"^(SER\s+CB\s+)(-?[0-9.]+)", lambda mo: mo.group(1) + "0.3333", amber_dat, count=1, flags=re.M)
        assert bad != amber_dat
        extra = {"u.dat": bad, "u.names": amber_names}
        opts = ["--userff={dir}/u.dat", "--usernames={dir}/u.names"]
    elif f == "nonintegral_userff_large":
        # the same non-integral parameter set on a large system (hundreds of waters): the size of the structure
        # must not make the total-charge check more lenient
        import re
        bad = re.sub(r"^(SER\s+CB\s+)(-?[0-9.]+)", lambda mo: mo.group(1) + rng.choice(["0.3333", "0.2400", "0.7100"]),
                     amber_dat, count=1, flags=re.M)
        extra = {"u.dat": bad, "u.names": amber_names}
        opts = ["--userff={dir}/u.dat", "--usernames={dir}/u.names"] + rng.choice([[], ["--noopt"]])
        c0 = S.centroid(S.peptide(["ALA"], rng))
        nw = rng.choice([150, 320, 650])
        side = int(round(nw ** (1 / 3))) + 1
        wat = []
        for k in range(nw):
            i, j, l = k % side, (k // side) % side, k // (side * side)
            wat.append({"resn": "HOH", "kind": "wat", "atoms": [("O", np.array([30.0 + 3.1 * i, 30.0 + 3.1 * j, 30.0 + 3.1 * l]))]})
        pep = S.peptide(["ALA", "SER", "LYS", "GLY"], rng)
        its, _ = S.assemble([{"id": "A", "start": 1, "residues": pep}, {"id": "W", "start": 1, "residues": wat}])
        text = pdbfmt.to_text(its)
    elif f == "nonintegral_userff_terminal_nucleotide":
        # the defect sits only in a terminal nucleotide's parameters: the total-charge gate must still see it
        import re
        end = rng.choice(["5", "3"])
        strand = S.nucleic(list("ATGC"), rng, dna=True, first_phosphate=False)
        resn = {"5": "DA5", "3": "DC3"}[end]
        bad = re.sub(r"^(%s\s+C5'\s+)(-?[0-9.]+)" % resn, lambda mo: mo.group(1) + "%.4f" % (float(mo.group(2)) + 0.3),
                     amber_dat, count=1, flags=re.M)
        assert bad != amber_dat
        extra = {"u.dat": bad, "u.names": amber_names}
        opts = ["--userff={dir}/u.dat", "--usernames={dir}/u.names"]
        its, _ = S.assemble([{"id": "A", "start": 1, "residues": strand}])
        text = pdbfmt.to_text(its)
    elif f == "corrupt_coordinate_field":
        # one ATOM record whose coordinate field is not a number (overflow asterisks, a letter typed for a digit)
        lines = text.split("\n")
        ks = [i for i, ln in enumerate(lines) if ln.startswith("ATOM")]
        k = rng.choice(ks[3:]) if len(ks) > 3 else ks[0]
        bad = rng.choice(["********", "   1.9O2", "  12.3.4", "     nan"[:8]])
        col = rng.choice([30, 38, 46])
        lines[k] = lines[k][:col] + bad + lines[k][col + 8:]
        text = "\n".join(lines)
    elif f == "usernames_points_to_missing_residue":
        # a user names file (bundled names, one plain <useresname> edited) that maps a residue onto a residue the
        # parameter file does not define: an unusable names / parameter-file combination
        import re
        base = rng.choice(["PARSE", "CHARMM"])   # the bundled names files with plain <useresname> rules
        names = (common.REPO / "pdb2pqr" / "dat" / f"{base}.names").read_text(encoding="utf-8")
        plain = [mo for mo in re.finditer(r"<useresname>([^<$]+)</useresname>", names)]
        mo = rng.choice(plain)
        ghost = rng.choice(["TIP3X", "ZZQ", "QQ9", mo.group(1) + "X"])
        extra = {"u.names": names[:mo.start(1)] + ghost + names[mo.end(1):]}
        opts = [f"--ff={base}", "--usernames={dir}/u.names"] + rng.choice([[], ["--nodebump", "--noopt"]])
        if rng.random() < 0.5:
            pep = S.peptide(["ALA", "SER", "LYS", "GLY"], rng)
            wat = [{"resn": "HOH", "kind": "wat", "atoms": [("O", np.array([20.0 + 3.1 * k, 20.0, 20.0]))]} for k in range(3)]
            its, _ = S.assemble([{"id": "A", "start": 1, "residues": pep}, {"id": "W", "start": 1, "residues": wat}])
            text = pdbfmt.to_text(its)
    elif f == "garbage_userff":
        extra = {"u.dat": "ALA CB notanumber 1.0\n", "u.names": amber_names}
        opts = ["--userff={dir}/u.dat", "--usernames={dir}/u.names"]
    elif f == "broken_names_xml":
        extra = {"u.dat": amber_dat, "u.names": amber_names[: len(amber_names) // 2]}
        opts = ["--userff={dir}/u.dat", "--usernames={dir}/u.names"]
    elif f == "ligand_missing_file":
        opts = ["--ff=AMBER", "--ligand={dir}/nolig.mol2"]
    elif f == "ligand_garbage":
        extra = {"lig.mol2": "@<TRIPOS>ATOM\n 1 C1 x y z C.3 1 LIG 0.0\n@<TRIPOS>BOND\n"}
        opts = ["--ff=AMBER", "--ligand={dir}/lig.mol2"]
    elif f == "ligand_duplicate_names":
        extra = {"lig.mol2": "@<TRIPOS>MOLECULE\nL\n2 1 1\nSMALL\nUSER_CHARGES\n\n\n@<TRIPOS>ATOM\n"
                 "1 C1 0.0 0.0 0.0 C.3 1 LIG 0.0\n2 C1 1.5 0.0 0.0 C.3 1 LIG 0.0\n@<TRIPOS>BOND\n1 1 2 1\n"}
        opts = ["--ff=AMBER", "--ligand={dir}/lig.mol2"]
    elif f == "ligand_partial_nonintegral":
        # the ligand residue in the structure lacks one atom of the MOL2 ligand: the charges that do get assigned
        # no longer sum to an integer => the integrality guard must stop the run
        from ..gen import mol2gen
        name = rng.choice(["acetate.mol2", "ethanol.mol2", "glycerol.mol2", "pyrrole.mol2", "acetylcholine.mol2"])
        mol = mol2gen.parse((common.REPO / "tests" / "data" / name).read_text())
        for a in mol["atoms"]:
            a["resn"] = "LIG"
        drop = rng.randrange(len(mol["atoms"]))
        c0 = S.centroid(S.peptide(["ALA"], rng))
        het = {"resn": "LIG", "kind": "het", "atoms": [(a["name"], np.array(a["xyz"]) + 30.0) for k, a in
                                                         enumerate(mol["atoms"]) if k != drop]}
        pep = S.peptide(["ALA", "SER", "GLY"], rng)
        it2, _ = S.assemble([{"id": "A", "start": 1, "residues": pep}, {"id": "L", "start": 301, "residues": [het]}])
        text = pdbfmt.to_text(it2)
        extra = {"lig.mol2": mol2gen.write(mol)}
        opts = ["--ff=AMBER", "--ligand={dir}/lig.mol2"]
    elif f == "unknown_option":
        opts = ["--ff=AMBER", "--no-such-option"]
    elif f == "cif_garbage":
        text = "data_x\nloop_\n_atom_site.group_PDB\nATOM\n garbage garbage\n"
        suffix = ".cif"
    elif f == "input_is_directory":
        text = None
        input_name = "."
    elif f == "his_no_h_assign_only":
        pep = S.peptide(["ALA", "HIS", "GLY"], rng)
        it2, _ = S.assemble([{"id": "A", "start": 1, "residues": pep}])
        text = pdbfmt.to_text(it2)
        opts = ["--ff=AMBER", "--assign-only"]
    elif f == "conflicting_clean_userff":
        # --clean overrides --userff by documentation: a legitimate success
        opts = ["--clean", "--userff={dir}/nope.dat", "--usernames={dir}/nope.names"]
        must_fail = False
    elif f == "only_waters_dropped":
        text = "HETATM    1  O   HOH W   1       0.000   0.000   0.000  1.00  0.00           O\nEND\n"
        opts = ["--ff=AMBER", "--drop-water"]
    elif f == "ter_only":
        text = "TER\nEND\n"
    return text, opts, extra, suffix, must_fail, input_name


def run_natural(spec, res):
    rng = random.Random(spec["seed"])
    text, opts, extra, suffix, must_fail, input_name = natural(spec, rng)
    f = spec["fault"]
    wit = {"fault": f, "opts": opts, "sentinel": spec["sentinel"], "entry": spec["entry"]}
    res.count("executions")
    res.count("natural_faults")
    res.nt("natural", f, spec["sentinel"], spec["entry"])
    res.cell("natural", f)
    if spec["entry"] == "cli":
        import tempfile
        d = Path(tempfile.mkdtemp(dir=str(common.workdir("c12"))))
        try:
            inp = d / (input_name or ("in" + suffix))
            if text is not None:
                inp.write_bytes(text if isinstance(text, bytes) else text.encode())
            for n, t in extra.items():
                (d / n).write_text(t)
            out = d / "out.pqr"
            if spec["sentinel"]:
                out.write_bytes(SENTINEL)
                os.utime(out, (1_000_000_000, 1_000_000_000))
            before = fingerprint(out)
            env = dict(os.environ, PYTHONPATH=f"{common.REPO}:{os.environ.get('PYTHONPATH', '')}")
            p = subprocess.run([common.PY, "-m", "pdb2pqr"] + [o.format(dir=str(d)) for o in opts] + [str(inp), str(out)],
                               capture_output=True, text=True, timeout=300, env=env, cwd=str(d))
            res.count("cli_runs")
            after = fingerprint(out)
            if p.returncode != 0:
                res.count("failed_runs_checked")
                if after != before:
                    res.violate(f"failure/output-{'created' if before is None else 'modified'}/natural/{f}",
                                f"CLI exited {p.returncode} but the output path changed", **wit)
            elif must_fail and f not in SUCCESS_IS_ACCEPTABLE:
                res.violate(f"fault/not-reported/natural/{f}", "CLI exited 0", **wit)
        finally:
            common.wipe(d)
        return
    r = execute(text, opts, spec["sentinel"], extra_files=extra, suffix=suffix, input_name=input_name)
    if r.ok and f in SUCCESS_IS_ACCEPTABLE:
        must_fail = False
    check_after(res, r, spec["sentinel"], f"natural/{f}", wit, must_fail)
    res.sample = {"kind": "natural", "fault": f, "failed": not r.ok, "exception": type(r.exc).__name__ if r.exc else None}


# faults for which finishing with a (complete) file is a legitimate outcome: the property demands an error only
# when no valid result can be produced
SUCCESS_IS_ACCEPTABLE = {"conflicting_clean_userff", "over_repair_limit", "missing_backbone", "missing_ca_everywhere",
                         "garbage_input", "binary_input"}


# ------------------------------------------------------------------------------ stage faults
def variant_opts(variant, rng):
    ff = rng.choice(common.FFS)
    o = [f"--ff={ff}"]
    if variant == "propka":
        o += ["--titration-state-method=propka", "--with-ph=%.1f" % rng.uniform(1, 13)]
    elif variant == "assign":
        o += ["--assign-only"]
    elif variant == "noopt":
        o += ["--noopt"] + (["--nodebump"] if rng.random() < 0.5 else [])
    elif variant == "ffout":
        o += ["--ffout=" + rng.choice(common.FFS), "--drop-water"]
    return o


def fault_structure(rng, assign=False):
    seq = [rng.choice(["ALA", "SER", "LYS", "ASP", "HIS", "TYR", "GLU", "CYS", "ASN"]) for _ in range(rng.randint(3, 5))]
    if assign:
        seq = [s for s in seq if s != "HIS"] or ["ALA", "GLY"]
    pep = S.peptide(seq, rng)
    wat = [S.water(S.centroid(pep), rng, spread=6.0) for _ in range(2)]
    dmg = [dict(r) for r in pep]
    items, _ = S.assemble([{"id": "A", "start": 1, "residues": dmg}, {"id": "W", "start": 100, "residues": wat}])
    # drop one side-chain atom so that the repair stage runs
    for i, it in enumerate(items):
        if isinstance(it, dict) and it["name"] in ("OG", "NZ", "OD2", "OH", "OE2", "SG", "ND2") and rng.random() < 0.7:
            del items[i]
            break
    return pdbfmt.to_text(items)


def resolve(mod, fn):
    import importlib
    m = importlib.import_module(mod)
    obj = m
    parts = fn.split(".")
    for p in parts[:-1]:
        obj = getattr(obj, p)
    return obj, parts[-1], getattr(obj, parts[-1])


def run_stage(spec, res):
    rng = random.Random(spec["seed"])
    text = fault_structure(rng, assign=spec["variant"] == "assign")
    opts = variant_opts(spec["variant"], rng)
    res.count("executions")
    try:
        holder, name, orig = resolve(spec["mod"], spec["fn"])
    except AttributeError:
        res.count("hook_unavailable")
        res.note(f"hook_unavailable {spec['mod']}.{spec['fn']}")
        return
    state = {"n": 0, "fired": False}
    E = exc_class(spec["exc"])

    def wrapper(*a, **k):
        state["n"] += 1
        if state["n"] == spec["nth"] and WATCH["stage"] != "print_pqr":
            state["fired"] = True
            raise E(f"injected fault at {spec['fn']} call {spec['nth']}")
        return orig(*a, **k)

    setattr(holder, name, wrapper)
    try:
        r = execute(text, opts, spec["sentinel"])
    finally:
        setattr(holder, name, orig)
    key = f"stage/{spec['fn']}"
    wit = {"stage": f"{spec['mod']}.{spec['fn']}", "exception": spec["exc"], "nth": spec["nth"], "opts": opts,
           "sentinel": spec["sentinel"], "fired": state["fired"]}
    if state["fired"]:
        res.count("stage_faults_fired")
        res.nt("stage", spec["fn"], spec["exc"], spec["sentinel"], spec["variant"])
        res.cell("stage", spec["fn"], "failed" if not r.ok else "swallowed")
        if r.ok:
            res.count("faults_swallowed")
    else:
        res.count("stage_faults_not_reached")
    check_after(res, r, spec["sentinel"], key, wit)
    res.sample = {"kind": "stage", **wit, "failed": not r.ok, "raised": type(r.exc).__name__ if r.exc else None}


# ------------------------------------------------------------------------------ random LINE failpoints
LINE = {"armed": False, "count": 0, "target": None, "exc": None, "fired_at": None, "tool": None, "registered": False}


def _disarm_line():
    LINE["armed"] = False


def _line_cb(code, lineno):
    if not LINE["armed"]:
        return None
    LINE["count"] += 1
    if LINE["target"] is not None and LINE["count"] == LINE["target"]:
        LINE["armed"] = False
        LINE["fired_at"] = (os.path.basename(code.co_filename), code.co_name, lineno)
        raise LINE["exc"](f"injected failpoint at {LINE['fired_at']}")
    return None


def _line_setup():
    if LINE["registered"]:
        return
    mon = sys.monitoring
    tool = mon.PROFILER_ID
    try:
        mon.use_tool_id(tool, "vf-failpoints")
    except ValueError:
        tool = mon.OPTIMIZER_ID
        mon.use_tool_id(tool, "vf-failpoints")
    LINE["tool"] = tool
    mon.register_callback(tool, mon.events.LINE, _line_cb)
    # local events on every code object of pdb2pqr modules
    import types
    root = str(common.REPO / "pdb2pqr")
    seen = set()

    def walk(code):
        if id(code) in seen:
            return
        seen.add(id(code))
        if code.co_filename.startswith(root):
            mon.set_local_events(tool, code, mon.events.LINE)
        for c in code.co_consts:
            if isinstance(c, types.CodeType):
                walk(c)

    for name, module in list(sys.modules.items()):
        if name.startswith("pdb2pqr") and module is not None:
            for obj in list(vars(module).values()):
                if isinstance(obj, types.FunctionType):
                    walk(obj.__code__)
                elif isinstance(obj, type):
                    for v in list(vars(obj).values()):
                        f = getattr(v, "__func__", v)
                        if isinstance(f, types.FunctionType):
                            walk(f.__code__)
                        elif isinstance(f, property) and f.fget:
                            walk(f.fget.__code__)
    LINE["registered"] = True


def run_line(spec, res):
    import pdb2pqr.main  # noqa: F401  (modules must be imported before instrumenting)
    import pdb2pqr.hydrogens  # noqa: F401
    install_watch()
    _line_setup()
    rng = random.Random(spec["seed"])
    text = fault_structure(rng)
    opts = variant_opts(spec["variant"], rng)
    # counting pass
    LINE.update(armed=True, count=0, target=None, fired_at=None)
    r0 = execute(text, opts, False)
    LINE["armed"] = False
    total = LINE["count"]
    r0.cleanup()
    res.count("executions")
    if not r0.ok or total < 100:
        res.note(f"counting pass failed or too few statements ({total})")
        return
    res.count("line_statements_in_reference_run", total)
    for k in range(spec["n"]):
        target = rng.randint(1, total)
        exc = rng.choice(EXC)
        sentinel = (k + (1 if spec["sentinel"] else 0)) % 2 == 0
        LINE.update(armed=True, count=0, target=target, exc=exc_class(exc), fired_at=None)
        r = execute(text, opts, sentinel)
        LINE["armed"] = False
        res.count("executions")
        fired = LINE["fired_at"]
        wit = {"statement": fired, "target_event": target, "of": total, "exception": exc, "opts": opts,
               "sentinel": sentinel}
        if fired:
            res.count("line_faults_fired")
            res.nt("line", fired[0], fired[1], exc)
            res.cell("line", fired[0], "failed" if not r.ok else "swallowed")
            if r.ok:
                res.count("faults_swallowed")
        check_after(res, r, sentinel, f"line/{fired[0] if fired else 'not-fired'}", wit)
    res.sample = {"kind": "line", "statements": total, "last": wit}


def setup_worker():
    import logging
    logging.getLogger().setLevel(logging.CRITICAL)


def run_case(spec):
    res = Res()
    k = spec["kind"]
    if k in ("cell", "nacell"):
        run_cell(spec, res)
    elif k == "assignonly":
        run_assignonly(spec, res)
    elif k == "mixedopts":
        run_mixedopts(spec, res)
    elif k == "mixed":
        run_mixed(spec, res)
    elif k == "natural":
        run_natural(spec, res)
    elif k == "stage":
        run_stage(spec, res)
    elif k == "line":
        run_line(spec, res)
    return res
