"""C02 - every residue carries the formal charge of its protonation and terminal state.

Per-residue oracle on whole runs: for each fully parameterised amino-acid residue the sum of its assigned charges
(object values and the PQR charge column) must equal the formal charge of its final state at its true chain
position; strands carry -1 per phosphate; waters are neutral; the total is the integer sum.  Chain positions come
from the generator (never from is_n_term / is_c_term).
"""
import random
from collections import defaultdict

import numpy as np

from .. import common, pipeline
from ..gen import pdbfmt, workload
from ..mon import match, pkastub
from ..ref import ffmap, states
from ..ref import topology as topo
from ..run import Res

ID = "C02"
LEVEL = "exploration"
EVAL_COUNTER = "residues_checked"
RULE = ("lattice cases (every input residue name x chain position x force field), random synthetic / fragment "
        "structures, chain-topology stressors (2-70 chains; distinct, blank+TER, repeated, merged and recycled chain "
        "ids; numbering resets and negatives; hidden chain ends via OXT; single-residue chains; protein+nucleic mixes; "
        "hetero/water tails), the cyclic peptide 5vav with its closing bond stretched across the 1.35 A threshold, "
        "--neutraln/--neutralc. Non-trivial: terminal or non-default-state or nucleic residue or a stressor scheme; "
        "distinct = (force field, final state, position, scheme)"
        ' Round-2 additions: long stretches of the local real proteins; pKa route with a stubbed pKa source (formal charges of titrated states).'
        ' Round-3/4 additions: chain ends marked by TER / a new chain id may lack OXT.')
ASSUMPTIONS = ["'fully parameterised' = every atom of the residue received parameters (none reported unassigned)", "chain ends: generator ground truth (TER / chain id / OXT)",
               "formal charges: ARG/LYS/HIP +1, ASP/GLU/CYM/TYM -1, charged N-terminus +1, charged C-terminus -1"]
MIN = {"quick": {"residues_checked": 1500, "terminal_residues_checked": 500, "strands_checked": 8, "totals_checked": 70,
                 "cyclic_cases": 6, "pka_route_runs": 8},
       "thorough": {"residues_checked": 60000, "terminal_residues_checked": 20000, "strands_checked": 800,
                    "totals_checked": 5000, "cyclic_cases": 100, "pka_route_runs": 500}}


def cases(tier, seed):
    out = []

    def opts(rng, spec):
        o = [f"--ff={spec['ff']}"]
        if spec["ff"] == "PARSE":
            if rng.random() < 0.35:
                o.append("--neutraln")
            if rng.random() < 0.35:
                o.append("--neutralc")
        if rng.random() < 0.15:
            o.append("--noopt")
        if rng.random() < 0.15:
            # pKa route (stubbed pKa source, random table): titrated states change the residues' formal charges
            o += pkastub.titration_opts(rng)
        return o

    for rep in range(1 if tier == "quick" else 40):
        for spec in workload.lattice_cases(seed * 37 + rep, opts_fn=opts):
            spec["kind"] = "run"
            out.append(spec)
    n = 90 if tier == "quick" else 20000
    for spec in workload.standard_cases(tier, seed, n, n, opts_fn=opts, frag_share=0.3,
                                        p={"icode_prob": 0.2, "variant_prob": 0.25, "no_element_prob": 0.4, "nterm_amide_prob": 0.6, "hydrogens": ["none", "all", "all", "side"], "na_prob": 0.25, "waters": [0, 2, 4]}):
        spec["kind"] = "run"
        out.append(spec)
    # long stretches / whole chains of the real proteins
    for spec in workload.long_cases(seed, 7 if tier == "quick" else 420, opts_fn=opts,
                                    long_max=150 if tier == "quick" else 400):
        spec["kind"] = "run"
        out.append(spec)
    # re-fed protonated structures: every hydrogen present (amide H of the first residue included), written without
    # the optional element columns
    nr = 24 if tier == "quick" else 3000
    rngr = random.Random(seed * 67 + 5)
    for i in range(nr):
        ff = ["PARSE", "AMBER", "PARSE", "CHARMM", "PARSE", "SWANSON"][i % 6]
        spec = {"kind": "run", "w": "synth", "seed": seed * 70001 + i, "ff": ff,
                "p": {"no_element_prob": 1.0, "nterm_amide_prob": 1.0, "hydrogens": ["all"], "na": False, "waters": [0, 2],
                      "variant_prob": 0.1}}
        spec["opts"] = opts(rngr, spec)
        out.append(spec)
    nt = 60 if tier == "quick" else 10000
    rng = random.Random(seed + 99)
    for i in range(nt):
        ff = common.FFS[i % 6]
        spec = {"kind": "run", "w": "topostress", "seed": seed * 50021 + i, "ff": ff, "p": {}}
        spec["opts"] = opts(rng, spec)
        out.append(spec)
    ncyc = 10 if tier == "quick" else 400
    for i in range(ncyc):
        out.append({"kind": "cyclic", "seed": seed * 13 + i, "ff": common.FFS[i % 6],
                    "d": [None, 1.30, 1.34, 1.349, 1.351, 1.36, 1.45, 1.60, 1.20, 1.33][i % 10]})
    return out


def cyclic_text(d, rng):
    """5vav as-is (d=None) or with the N-terminal residue slid along the closing bond so that N1-C14 = d."""
    text = (common.REPO / "tests" / "data" / "5vav_cyclic_peptide.pdb").read_text()
    atoms = pdbfmt.first_altloc(pdbfmt.read_first_model(text))
    n1 = next(a for a in atoms if a["resi"] == 1 and a["name"] == "N")
    c14 = next(a for a in atoms if a["resi"] == 14 and a["name"] == "C")
    v = np.array([n1[k] - c14[k] for k in "xyz"])
    d0 = float(np.linalg.norm(v))
    items = []
    for a in atoms:
        b = pdbfmt.atom(a["name"], a["resn"], a["chain"], a["resi"], (a["x"], a["y"], a["z"]))
        if d is not None and a["resi"] == 1:
            shift = v / d0 * (d - d0)
            b["x"] += shift[0]
            b["y"] += shift[1]
            b["z"] += shift[2]
        items.append(b)
    items += ["TER", "END"]
    pdbfmt.renumber(items)
    # 3-decimal rounding can move the distance by ~1e-3: measure what the file really says
    t = pdbfmt.to_text(items)
    at = pdbfmt.read_first_model(t)
    n1 = next(a for a in at if a["resi"] == 1 and a["name"] == "N")
    c14 = next(a for a in at if a["resi"] == 14 and a["name"] == "C")
    dist = float(np.linalg.norm([n1[k] - c14[k] for k in "xyz"]))
    resids = []
    for a in at:
        if not resids or resids[-1][0] != a["resi"]:
            resids.append((a["resi"], a["resn"]))
    cyc = dist < 1.35
    truth = [{"chain": "A", "resi": ri, "icode": "", "resn": rn, "base": topo.base_of(rn), "kind": "aa",
              "pos": "N" if k == 0 else "C" if k == len(resids) - 1 else "I", "cyclic": cyc}
             for k, (ri, rn) in enumerate(resids)]
    if rng.random() < 0.6:
        # further, linear chains next to the cyclic one (ids sorting after and before it): their termini are due
        from ..gen import structures as S
        extra_items, extra_truth = [], []
        for cid in rng.sample(["B", "C", "0"], rng.randint(1, 2)):
            pep = S.peptide(S.random_sequence(rng, rng.randint(3, 5), pool=["SER", "ALA", "PHE", "GLU", "LYS", "GLY"]), rng,
                            cterm_oxt=rng.random() < 0.4)
            S.transform(pep, np.eye(3), np.array([40.0 + 15.0 * len(extra_items), 0.0, 0.0]))
            it2, tr2 = S.assemble([{"id": cid, "start": 1, "residues": pep}], end=False)
            extra_items += it2
            extra_truth += tr2
        items = [it for it in items if it != "END"] + extra_items + ["END"]
        pdbfmt.renumber(items)
        t = pdbfmt.to_text(items)
        truth = truth + extra_truth
    return t, items, truth, dist


def check_run(res, spec, m, r, scheme, titr_by_ord=None):
    opts = states.Opts(spec["opts"])
    model = ffmap.builtin(spec["ff"])
    pairs = match.match_residues(r.bio, m["items"], m["truth"])
    bonded, ambiguous = match.ss_truth(r.bio)
    missed = {id(a) for a in (r.missed or [])}
    written = match.written_atoms(r.bio, r.missed)
    pq = pipeline.parse_pqr(r.pqr_text)
    line_of = {id(a): ln for a, ln in zip(written, pq)} if len(pq) == len(written) else {}
    expected_total, complete = 0.0, True
    tord = {id(t): k for k, t in enumerate(m["truth"])}
    strands = defaultdict(lambda: {"q": 0.0, "p": 0, "ok": True, "n": 0})
    for residue, tr in pairs:
        if tr is None:
            complete = False
            continue
        names = {a.name for a in residue.atoms}
        ss = id(residue) in bonded
        if id(residue) in ambiguous:
            complete = False
            continue
        titr = (titr_by_ord or {}).get(tord[id(tr)], ())
        ffn = states.ff_name(tr, names, opts, ss, titr)
        # "fully parameterised" is judged on the outcome: every atom of the residue received parameters
        full = ffn is not None and all(a.ffcharge is not None and id(a) not in missed for a in residue.atoms)
        q_obj = sum(a.ffcharge for a in residue.atoms if a.ffcharge is not None and id(a) not in missed)
        q_pqr = sum(line_of[id(a)]["q"] for a in residue.atoms if id(a) in line_of) if line_of else None
        pos = "I" if tr.get("cyclic") else tr["pos"]
        wit = {"ff": spec["ff"], "opts": spec["opts"], "residue": f"{tr['resn']} {tr['chain']} {tr['resi']}",
               "position": pos, "state_name": ffn, "scheme": scheme, "seed": spec["seed"], "w": spec.get("w"),
               "real_ffname": getattr(residue, "ffname", None),
               "real_flags": (getattr(residue, "is_n_term", None), getattr(residue, "is_c_term", None))}
        if tr["kind"] == "wat":
            if full:
                res.count("waters_checked")
                if abs(q_obj) > 1e-3:
                    res.violate("water/charged", f"water carries {q_obj:+.4f}", **wit)
                expected_total += 0
            else:
                complete = False
            continue
        if tr["kind"] == "na":
            s = strands[(tr["chain"], )]
            s["n"] += 1
            s["q"] += q_obj
            s["p"] += sum(1 for a in residue.atoms if a.name == "P")
            s["ok"] &= full
            s["ends"] = s.get("ends", "") + pos
            continue
        if tr["kind"] != "aa":
            if any(a.ffcharge for a in residue.atoms):
                complete = False
            continue
        if not full:
            res.count("residues_not_fully_parameterised")
            complete = False
            continue
        want = states.formal_charge(tr, names, opts, ss, titr)
        if titr:
            res.count("titrated_residues_checked")
        res.count("residues_checked")
        if pos != "I":
            res.count("terminal_residues_checked")
        st = states.side_state(tr, names, ss, titr)
        res.cell(spec["ff"], st, pos)
        if pos != "I" or st != tr["base"] or scheme:
            res.nt(spec["ff"], st, pos, scheme or "-")
        expected_total += want
        if abs(q_obj - want) > 1e-3:
            kind = "interior-residue-with-terminal-charge" if pos == "I" and abs(abs(q_obj - want) - 1) < 1e-3 else \
                "chain-end-without-terminal-charge" if pos != "I" and abs(abs(q_obj - want) - 1) < 1e-3 else "wrong-charge"
            res.violate(f"residue/{kind}", f"{tr['resn']} at position {pos} (state {ffn}) carries {q_obj:+.4f}, formal "
                        f"charge of that state is {want:+d}", **wit)
        elif q_pqr is not None and abs(q_pqr - want) > 1.5e-3:
            res.violate("residue/pqr-column", f"PQR charge column sums to {q_pqr:+.4f} for {ffn}, formal {want:+d}", **wit)
    for key, s in strands.items():
        if not s["ok"]:
            complete = False
            res.count("strands_not_fully_parameterised")
            continue
        res.count("strands_checked")
        res.nt(spec["ff"], "strand", s["n"], scheme or "-")
        expected_total += -s["p"]
        if abs(s["q"] + s["p"]) > 1e-3 * max(1, s["n"]):
            res.violate("strand/charge", f"strand {key} with {s['n']} nucleotides and {s['p']} phosphates carries "
                        f"{s['q']:+.4f}", ff=spec["ff"], opts=spec["opts"], seed=spec["seed"], scheme=scheme)
    if complete and line_of:
        res.count("totals_checked")
        total = sum(ln["q"] for ln in pq)
        if abs(total - expected_total) > 1e-3 * max(1, len(pairs)) + 5e-5 * len(pq):
            res.violate("total/not-the-integer-sum", f"PQR charges sum to {total:+.4f}, residues' formal charges sum to "
                        f"{expected_total:+.1f}", ff=spec["ff"], opts=spec["opts"], seed=spec["seed"], scheme=scheme)


def run_case(spec):
    res = Res()
    if spec["kind"] == "cyclic":
        rng = random.Random(spec["seed"])
        text, items, truth, dist = cyclic_text(spec["d"], rng)
        if abs(dist - 1.35) < 1e-6:
            return res
        m = {"text": text, "items": items, "truth": truth}
        spec = dict(spec, opts=[f"--ff={spec['ff']}"], w="5vav")
        scheme = f"cyclic-d={'native' if spec['d'] is None else spec['d']}"
        res.count("cyclic_cases")
    else:
        m = workload.materialise(spec)
        scheme = m["meta"].get("scheme", "")
    with pkastub.for_opts(spec["opts"], m["truth"], spec["seed"]) as titr:
        r = pipeline.run(m["text"], spec["opts"], workname="c02")
    res.count("runs")
    if titr is not None:
        res.count("pka_route_runs")
    if not r.ok:
        res.count("runs_failed")
        msg = " | ".join(mm for lv, _n, mm in r.log if lv >= 40)[:160]
        res.note(f"{spec['ff']} {spec['opts']} {scheme} failed: {type(r.exc).__name__} {str(r.exc)[:60]} {msg}")
        return res
    res.count("runs_ok")
    check_run(res, spec, m, r, scheme, pkastub.observed_titration(r, m) if titr is not None else None)
    res.sample = {"ff": spec["ff"], "opts": spec["opts"], "scheme": scheme,
                  "residues": [(t["resn"], t["pos"]) for t in m["truth"]][:10]}
    return res


def setup_worker():
    import logging
    logging.getLogger().setLevel(logging.CRITICAL)
