"""C11 - runs are deterministic and independent of process history.

(1) fresh-process references under several PYTHONHASHSEED values must agree byte for byte;
(2) in-process histories (random sequences over a pool of configurations with forced A-B-A and A-fail-A patterns)
    must reproduce the fresh-process bytes at every step;
(3) state-leak observer: a deep fingerprint of pdb2pqr's module globals, class attributes and function defaults is
    taken around every run; changes are reported in the evidence (notes) as witness material, the verdict is always
    on bytes (a cache that never changes output keeps the property).
"""
import hashlib
import json
import os
import random
import subprocess
import sys
import types

from .. import common, pipeline
from ..gen import pdbfmt, workload
from ..run import Res

ID = "C11"
LEVEL = "exploration"
EVAL_COUNTER = "runs_compared"
RULE = ("configuration pool: generated structures (peptides with all residue types, nucleic strands, waters, "
        "fragments, the local 1AJJ) x {six force fields, propka at random pH, drop-water, ffout, whitespace, "
        "neutral termini, noopt/nodebump, assign-only, clean, user force field} plus failing configurations (garbage "
        "input, missing backbone, bad option). fresh cases: one configuration under PYTHONHASHSEED 0,1,2,random in "
        "new processes. history cases: 3-6 configurations, fresh references, then an in-process history of 8-24 runs "
        "containing A-B-A and A-fail-A. Non-trivial: a repeated configuration after at least one different (or "
        "failed) run; distinct = (configuration id, what ran immediately before it)"
        ' Round-2 additions: multi-model PDB and (multi-model) mmCIF encodings; the APBS input written by --apbs-input is part of the compared bytes; some histories hold two APBS-writing configurations.'
        ' Round-3/4 additions: chain-topology stressors with --keep-chain; loosely formatted bookkeeping records (MODEL / TER / CRYST1 the record parsers reject) followed by multi-model inputs; mmCIF layouts.')
ASSUMPTIONS = ["bytes of the PQR file are the observable; log output is not compared",
               "module-state fingerprint covers dict/list/set/tuple/scalar attributes of pdb2pqr modules and classes "
               "and function defaults to depth 4; logging filters' display counters are excluded"]
MIN = {"quick": {"runs_compared": 150, "fresh_processes": 60, "aba_steps": 40, "after_failure_steps": 15,
                 "fingerprints_compared": 150},
       "thorough": {"runs_compared": 4000, "fresh_processes": 1500, "aba_steps": 1000, "after_failure_steps": 400,
                    "fingerprints_compared": 4000}}
SHARDS_PER_JOB = 1
TIMEOUT = {"quick": 1500, "thorough": 6 * 3600}


def cases(tier, seed):
    nf, nh = (8, 14) if tier == "quick" else (250, 600)
    out = [{"kind": "fresh", "seed": seed * 811 + i} for i in range(nf)]
    # several rebuilt atoms of one residue bump at the same time (the debumper then chooses among torsions by comparing
    # collections of atom names - a place where container iteration order could decide)
    out += [{"kind": "fresh", "bump": True, "seed": seed * 821 + i} for i in range(6 if tier == "quick" else 120)]
    out += [{"kind": "history", "seed": seed * 1213 + i} for i in range(nh)]
    return out


def config(rng):
    """A random configuration: {'w': workload spec or named input, 'opts': [...], 'fail': bool}"""
    c = rng.random()
    if c < 0.12:
        kind = rng.choice(["garbage", "missing_backbone", "bad_option", "bad_usernames_other_ff", "bad_usernames_broken_xml"])
        return {"id": f"fail-{kind}", "fail": kind, "opts": ["--ff=AMBER"], "w": None}
    ff = rng.choice(common.FFS)
    opts = [f"--ff={ff}"]
    flavour = rng.choice(["plain", "plain", "propka", "dropwater", "ffout", "whitespace", "neutral", "noopt", "assign",
                          "clean", "keepchain", "userff", "usernames", "apbs", "apbs", "ligand"])
    if flavour == "propka":
        opts += ["--titration-state-method=propka", "--with-ph=%.1f" % rng.choice([2.0, 4.5, 7.0, 9.5, 12.0])]
    elif flavour == "dropwater":
        opts += ["--drop-water"]
    elif flavour == "ffout":
        opts += ["--ffout=" + rng.choice(common.FFS)]
    elif flavour == "whitespace":
        opts += ["--whitespace"] + (["--keep-chain"] if rng.random() < 0.5 else [])
    elif flavour == "neutral":
        opts = ["--ff=PARSE", "--neutraln", "--neutralc"]
    elif flavour == "noopt":
        opts += ["--noopt"] + (["--nodebump"] if rng.random() < 0.5 else [])
    elif flavour == "clean":
        opts = ["--clean"]
    elif flavour == "keepchain":
        opts += ["--keep-chain"]
    elif flavour == "apbs":
        # the APBS input written next to the PQR is an output of the run as well (grid sizing state)
        opts += ["--apbs-input={dir}/o.in"]
    userff = None
    if flavour == "usernames":
        userff = {"ffseed": rng.randrange(10 ** 6), "base": ff, "names_only": True}
        opts = [f"--ff={ff}", "--usernames={dir}/u.names"]
    if flavour == "userff":
        userff = {"ffseed": rng.randrange(10 ** 6), "base": rng.choice(["AMBER", "PARSE", "CHARMM"])}
        opts = ["--userff={dir}/u.dat", "--usernames={dir}/u.names"]
    if rng.random() < 0.12:
        w = {"named": "1AJJ"}
    elif rng.random() < 0.2 and flavour not in ("userff", "usernames"):
        # chain-topology stressors: blank / repeated chain ids, hidden chain ends (OXT mid-chain, no TER) - the code
        # has to invent chain ids; --keep-chain makes them visible
        # (mostly the schemes in which the code must invent chain ids - state that could leak between runs)
        w = {"w": "topostress", "seed": rng.randrange(10 ** 6), "ff": ff,
             "p": {"scheme": rng.choice(["blank_ter", "merged_oxt", "repeated_oxt", "blank_ter", "merged_oxt", None])}}
        if "--keep-chain" not in opts and opts != ["--clean"] and rng.random() < 0.7:
            opts = opts + ["--keep-chain"]
    else:
        w = {"w": rng.choice(["synth", "synth", "frag"]), "seed": rng.randrange(10 ** 6), "ff": ff,
             "p": {"maxlen": 6, "waters": [0, 2, 4], "na_prob": 0.2, "variant_prob": 0.15, "damage_prob": 0.15}}
    if "named" not in w and w.get("w") in ("synth", "frag") and rng.random() < 0.3 and "--drop-water" not in opts \
            and opts != ["--clean"]:
        w["lone_waters"] = rng.randint(1, 2)
    # input encoding: plain PDB, multi-model PDB, mmCIF (single / multi-model with assorted model numbers)
    if "named" not in w:
        enc = rng.choice(["pdb", "pdb", "pdb", "pdb-models", "pdb-loose", "cif", "cif-models", "cif-models"])
        if enc != "pdb":
            w["enc"] = enc
            w["model_numbers"] = rng.choice([[1, 2, 3], [9, 10, 11], [2, 10, 11], [3, 2, 1], [1, 2, 3, 4, 5, 6, 7, 8, 9, 10, 11]])
    if flavour == "ligand":
        # a peptide with a MOL2-parameterised ligand (--ligand): the ligand bookkeeping of one run must not reach the next
        w = {"w": "ligcomplex", "seed": rng.randrange(10 ** 6), "ff": ff}
        opts = [f"--ff={ff}", "--ligand={dir}/lig.mol2"] + rng.choice([[], [], ["--keep-chain"], ["--noopt"]])
    cid = hashlib.sha1(json.dumps([w, opts, userff], sort_keys=True).encode()).hexdigest()[:10]
    return {"id": cid, "fail": None, "opts": opts, "w": w, "flavour": flavour, "userff": userff}


def ligand_complex(seed):
    """(PDB text, MOL2 text) of a small peptide with one hetero group taken from a generated MOL2 molecule."""
    import numpy as np
    from ..gen import mol2gen
    from ..gen import structures as S
    rng = random.Random(seed)
    mol = mol2gen.random_molecule(rng, 2, 6)
    taken = {a["name"] for a in mol["atoms"]}
    for a in mol["atoms"]:
        a["resn"] = "LIG"
        if a["name"] in ("O", "H1", "H2"):
            new = "L" + a["name"]
            while new in taken:
                new = new[:3] + rng.choice("ABCDEFGH")
            taken.add(new)
            a["name"] = new
    pep = S.peptide(S.random_sequence(rng, rng.randint(3, 5), pool=["ALA", "GLY", "SER", "LEU", "LYS", "ASP", "THR"]), rng)
    c0 = S.centroid(pep)
    pts = np.array([a["xyz"] for a in mol["atoms"]])
    shift = c0 + np.array([25.0, 0, 0]) - pts.mean(0)
    het = {"resn": "LIG", "kind": "het", "atoms": [(a["name"], np.array(a["xyz"]) + shift) for a in mol["atoms"]]}
    items, _ = S.assemble([{"id": "A", "start": 1, "residues": pep},
                           {"id": rng.choice(["A", "L"]), "start": 301, "residues": [het]}])
    return pdbfmt.to_text(items), mol2gen.write(mol)


def text_of(cfg):
    if cfg["fail"] == "garbage":
        return "garbage\nATOM broken line\n"
    if cfg["fail"] == "bad_option":
        return "END\n"
    if cfg["fail"] in ("bad_usernames_other_ff", "bad_usernames_broken_xml"):
        m = workload.materialise({"w": "synth", "seed": 6, "ff": "AMBER", "p": {"nchains": 1, "maxlen": 4, "minlen": 4,
                                                                               "waters": [0], "na": False}})
        return m["text"]
    if cfg["fail"] == "missing_backbone":
        m = workload.materialise({"w": "synth", "seed": 5, "ff": "AMBER", "p": {"nchains": 1, "maxlen": 4, "minlen": 4,
                                                                               "waters": [0], "na": False}})
        items = [it for it in m["items"] if not (isinstance(it, dict) and it["name"] in ("N", "CA"))]
        return pdbfmt.to_text(items)
    if cfg["w"].get("named"):
        return (common.REPO / "tests" / "data" / f"{cfg['w']['named']}.pdb").read_text()
    if cfg["w"].get("w") == "ligcomplex":
        return ligand_complex(cfg["w"]["seed"])[0]
    if cfg["w"].get("w") == "bumppair":
        return bump_pair(cfg["w"]["seed"])
    m = workload.materialise({k: v for k, v in cfg["w"].items() if k not in ("enc", "model_numbers", "lone_waters")})
    if cfg["w"].get("lone_waters"):
        # isolated waters far from everything (no hydrogen-bond partner, no protein atom in the neighbouring cells)
        atoms_ = [it for it in m["items"] if isinstance(it, dict)]
        x0 = max(a["x"] for a in atoms_) + 40.0
        extra_w = [dict(atoms_[-1], rec="HETATM", name="O", resn="HOH", chain="W", resi=950 + k, icode="", alt="",
                        x=x0 + 25.0 * k, y=atoms_[-1]["y"] + 3.0 * k, z=atoms_[-1]["z"] - 2.0, elem="O")
                   for k in range(cfg["w"]["lone_waters"])]
        e = next((i for i, it in enumerate(m["items"]) if it == "END"), len(m["items"]))
        m["items"][e:e] = extra_w + ["TER"]
        pdbfmt.renumber(m["items"])
        m["text"] = pdbfmt.to_text(m["items"])
    enc = cfg["w"].get("enc", "pdb")
    if enc == "pdb":
        return m["text"]
    items = m["items"]
    if enc.endswith("models"):
        body = [it for it in items if it != "END"]
        allm = []
        for k, num in enumerate(cfg["w"]["model_numbers"]):
            allm.append("MODEL     %4d" % num)
            allm += [dict(it, x=it["x"] + 1.37 * k, y=it["y"] - 0.61 * k) if isinstance(it, dict) else it for it in body]
            allm.append("ENDMDL")
        items = allm + ["END"]
        pdbfmt.renumber(items)
    if enc == "pdb-loose":
        # loosely formatted bookkeeping records that the record parsers reject (the reader logs them and goes on):
        # a MODEL line with its number in the wrong columns, a TER with text in the serial field, a malformed CRYST1
        lines = pdbfmt.to_text(items).split("\n")
        k = next((i for i, ln in enumerate(lines) if ln.startswith(("ATOM", "HETATM"))), 0)
        lines[k:k] = ["MODEL 1", "CRYST1 not a unit cell"]
        ters = [i for i, ln in enumerate(lines) if ln == "TER"]
        if ters:
            lines[ters[-1]] = "TER   end of chain"
        e = next((i for i, ln in enumerate(lines) if ln == "END"), len(lines))
        lines[e:e] = ["ENDMDL"]
        return "\n".join(lines)
    if enc.startswith("cif"):
        from ..gen import cifwriter
        sd = cfg["w"].get("seed", 0)
        return cifwriter.write(items, label_auth="wwpdb", layout=["wwpdb", "short", "shuffled", "extra"][sd % 4],
                               rng=random.Random(sd + 3))
    return pdbfmt.to_text(items)


def run_cfg(cfg):
    text = text_of(cfg)
    opts = cfg["opts"] + (["--no-such-flag"] if cfg["fail"] == "bad_option" else [])
    extra = None
    if cfg["fail"] == "bad_usernames_other_ff":
        # a well-formed names file written for another force field (its targets do not exist in AMBER.DAT)
        extra = {"u.names": (common.REPO / "pdb2pqr" / "dat" / "CHARMM.names").read_text()}
        opts = ["--ff=AMBER", "--usernames={dir}/u.names"]
    elif cfg["fail"] == "bad_usernames_broken_xml":
        t = (common.REPO / "pdb2pqr" / "dat" / "AMBER.names").read_text()
        extra = {"u.names": t[: len(t) // 2]}
        opts = ["--ff=AMBER", "--usernames={dir}/u.names"]
    if cfg.get("userff"):
        from ..gen import ffgen
        if cfg["userff"].get("names_only"):
            names, _ = ffgen.make_names_only(random.Random(cfg["userff"]["ffseed"]), cfg["userff"]["base"])
            extra = {"u.names": names}
        else:
            dat, names, _ = ffgen.make(random.Random(cfg["userff"]["ffseed"]), cfg["userff"]["base"])
            extra = {"u.dat": dat, "u.names": names}
    if (cfg["w"] or {}).get("w") == "ligcomplex":
        extra = {"lig.mol2": ligand_complex(cfg["w"]["seed"])[1]}
    apbs = any(o.startswith("--apbs-input") for o in opts)
    r = pipeline.run(text, opts, workname="c11", extra_files=extra, keep=apbs,
                     suffix=".cif" if (cfg["w"] or {}).get("enc", "").startswith("cif") else ".pdb")
    try:
        if r.ok and r.pqr_text is not None:
            out = r.pqr_text
            if apbs:
                # the APBS input names the PQR by path: the per-run scratch directory is normalised away
                out += "\n---- apbs input ----\n" + (r.dir / "o.in").read_text().replace(str(r.dir), "<dir>")
            return "ok:" + hashlib.sha1(out.encode()).hexdigest(), out
        return "fail:" + type(r.exc).__name__, None
    finally:
        if apbs:
            r.cleanup()


def bump_pair(seed):
    """A peptide in which one branched side chain is cut back to its stem (GLU / GLN after CG, ASP / ASN after CB, ARG
    after NE, LEU after CB ...) with obstacle waters close to where each of the rebuilt end atoms will land."""
    import numpy as np
    from ..gen import structures as S
    rng = random.Random(seed)
    cut = {"GLU": ("CD", "OE1", "OE2"), "GLN": ("CD", "OE1", "NE2"), "ASP": ("CG", "OD1", "OD2"), "ASN": ("CG", "OD1", "ND2"),
           "ARG": ("CZ", "NH1", "NH2"), "LEU": ("CG", "CD1", "CD2"), "VAL": ("CG1", "CG2"), "THR": ("OG1", "CG2"),
           "ILE": ("CG1", "CG2", "CD1")}
    # long enough for the cut to stay below the repair limit (10 % of the heavy atoms)
    seq = [rng.choice(["ALA", "LEU", "SER", "VAL", "THR"]) for _ in range(rng.randint(9, 12))]
    targets = rng.sample(range(1, len(seq) - 1), 1)
    for k in targets:
        seq[k] = rng.choice(sorted(cut))
    pep = S.peptide(seq, rng)
    heavy = [x for r in pep for n, x in r["atoms"]]
    waters = []
    for k in targets:
        r = pep[k]
        gone = cut[r["resn"]]
        ends = [x for n, x in r["atoms"] if n in gone[-2:]]
        r["atoms"] = [(n, x) for n, x in r["atoms"] if n not in gone]
        keep = [x for rr in pep for n, x in rr["atoms"]]
        for e in ends:
            for _try in range(40):
                d = np.array([rng.gauss(0, 1) for _ in range(3)])
                o = e + d / np.linalg.norm(d) * rng.uniform(0.9, 1.5)
                if min(np.linalg.norm(np.array(keep) - o, axis=1)) >= 2.2:
                    waters.append({"resn": "HOH", "kind": "wat", "atoms": [("O", o)]})
                    break
    items, _ = S.assemble([{"id": "A", "start": 1, "residues": pep}, {"id": "W", "start": 201, "residues": waters}])
    return pdbfmt.to_text(items)


def fresh(cfg, hashseed):
    """Digest of the configuration in a new interpreter under the given hash seed."""
    env = dict(os.environ, PYTHONHASHSEED=str(hashseed), PYTHONPATH=f"{common.VERIF}:{os.environ.get('PYTHONPATH', '')}")
    p = subprocess.run([common.PY, "-m", "vf.checks.c11", json.dumps(cfg)], capture_output=True, text=True, timeout=900,
                       env=env, cwd=str(common.VERIF))
    line = [ln for ln in p.stdout.splitlines() if ln.startswith("DIGEST ")]
    if not line:
        return "harness-error:" + p.stderr[-300:]
    return line[-1][7:]


# ---------------------------------------------------------------------------------------------------------
def _fp(obj, depth=0, seen=None):
    seen = seen if seen is not None else set()
    if isinstance(obj, (str, int, float, bool, bytes, type(None), complex)):
        return repr(obj)
    if id(obj) in seen or depth > 4:
        return "<...>"
    seen.add(id(obj))
    if isinstance(obj, dict):
        return "{" + ",".join(sorted(f"{_fp(k, depth + 1, seen)}:{_fp(v, depth + 1, seen)}" for k, v in list(obj.items()))) + "}"
    if isinstance(obj, (list, tuple)):
        return "[" + ",".join(_fp(v, depth + 1, seen) for v in list(obj)) + "]"
    if isinstance(obj, (set, frozenset)):
        return "s{" + ",".join(sorted(_fp(v, depth + 1, seen) for v in list(obj))) + "}"
    if isinstance(obj, type):
        return f"<class {obj.__module__}.{obj.__qualname__}>"
    if isinstance(obj, (types.FunctionType, types.BuiltinFunctionType, types.MethodType)):
        return f"<fn {getattr(obj, '__qualname__', '?')}>"
    if isinstance(obj, types.ModuleType):
        return f"<module {obj.__name__}>"
    return f"<{type(obj).__module__}.{type(obj).__qualname__}>"


def import_all():
    import importlib
    import pkgutil
    import pdb2pqr
    for mi in pkgutil.walk_packages(pdb2pqr.__path__, "pdb2pqr."):
        if mi.name.endswith("__main__"):
            continue
        try:
            importlib.import_module(mi.name)
        except Exception:  # noqa: BLE001
            pass


def fingerprint():
    """{location: digest} over pdb2pqr module globals, class attributes and function defaults."""
    import logging
    out = {}
    for mname, mod in sorted(sys.modules.items()):
        if not (mname == "pdb2pqr" or mname.startswith("pdb2pqr.")) or mod is None:
            continue
        for name, val in list(vars(mod).items()):
            if name.startswith("__") or isinstance(val, (types.ModuleType, logging.Logger)):
                continue
            if isinstance(val, types.FunctionType):
                if val.__module__ == mname:
                    out[f"{mname}.{name}.__defaults__"] = _fp(val.__defaults__) + _fp(val.__kwdefaults__)
                continue
            if isinstance(val, type):
                if val.__module__ != mname:
                    continue
                for an, av in list(vars(val).items()):
                    if an.startswith("__") and an not in ("__init__",):
                        continue
                    f = getattr(av, "__func__", av)
                    if isinstance(f, types.FunctionType):
                        out[f"{mname}.{name}.{an}.__defaults__"] = _fp(f.__defaults__) + _fp(f.__kwdefaults__)
                    elif not isinstance(av, (property, staticmethod, classmethod)):
                        out[f"{mname}.{name}.{an}"] = _fp(av)
                continue
            out[f"{mname}.{name}"] = _fp(val)
    return out


# ---------------------------------------------------------------------------------------------------------
def run_fresh(spec, res):
    rng = random.Random(spec["seed"])
    cfg = config(rng)
    seeds = [0, 1, 2, rng.randrange(3, 2 ** 31)]
    if spec.get("bump"):
        ff = rng.choice(common.FFS)
        w = {"w": "bumppair", "seed": rng.randrange(10 ** 6), "ff": ff}
        opts = [f"--ff={ff}"] + rng.choice([[], [], ["--noopt"]])
        cfg = {"id": hashlib.sha1(json.dumps([w, opts]).encode()).hexdigest()[:10], "fail": None, "opts": opts, "w": w,
               "flavour": "rebuilt-atoms-bump-together", "userff": None}
        seeds = [0, 1, 2, 3, 4, rng.randrange(5, 2 ** 31)]
        res.count("fresh_bump_configurations")
    digs = {}
    for hs in seeds:
        digs[hs] = fresh(cfg, hs)
        res.count("fresh_processes")
    if any(d.startswith("harness-error") for d in digs.values()):
        raise RuntimeError(f"fresh runner failed: {digs}")
    res.count("runs_compared", len(seeds) - 1)
    res.cell("fresh", cfg.get("flavour") or cfg["id"])
    res.nt("fresh", cfg["id"])
    if len(set(digs.values())) != 1:
        res.violate("fresh/hash-seed-dependent", f"configuration {cfg['id']} ({cfg['opts']}) gives different PQR bytes "
                    f"under PYTHONHASHSEED {digs}", cfg=cfg, digests=digs)
    res.sample = {"kind": "fresh", "opts": cfg["opts"], "input": cfg["w"], "digests": digs}


def run_history(spec, res):
    rng = random.Random(spec["seed"])
    pool = []
    while len(pool) < rng.randint(3, 5):
        c = config(rng)
        if c["fail"] is None and c["id"] not in [p["id"] for p in pool]:
            pool.append(c)
    if spec["seed"] % 3 == 0:
        # two different structures that both write an APBS input (grid sizing must not remember the previous molecule)
        k = 0
        while sum(1 for c in pool if c.get("flavour") == "apbs") < 2 and k < 400:
            c = config(random.Random(spec["seed"] * 19 + k))
            k += 1
            if c["fail"] is None and c.get("flavour") == "apbs" and c["id"] not in [p["id"] for p in pool]:
                pool.insert(0, c)
    if spec["seed"] % 3 == 1:
        # a file with rejected bookkeeping records first, then inputs that depend on those record types
        # (several models, blank chain ids separated by TER)
        want = ["pdb-loose", "pdb-models"]
        k = 0
        while want and k < 600:
            c = config(random.Random(spec["seed"] * 23 + k))
            k += 1
            if c["fail"] is None and c["w"] and c["w"].get("enc") == want[0] and c["id"] not in [p["id"] for p in pool]:
                pool.insert(0 if want[0] == "pdb-models" else 0, c)
                want.pop(0)
        # order: loose first (pool[0] is A in the forced A-B-A pattern)
        pool.sort(key=lambda c: 0 if (c["w"] or {}).get("enc") == "pdb-loose" else 1)
    if spec["seed"] % 3 == 2:
        # two different complexes that both go through --ligand (A, B, A ...): ligand atoms of one run must not
        # show up in the next
        k = 0
        while sum(1 for c in pool if c.get("flavour") == "ligand") < 2 and k < 600:
            c = config(random.Random(spec["seed"] * 29 + k))
            k += 1
            if c["fail"] is None and c.get("flavour") == "ligand" and c["id"] not in [p["id"] for p in pool]:
                pool.insert(0, c)
    fails = [c for c in (config(random.Random(spec["seed"] * 7 + k)) for k in range(40)) if c["fail"]][:2] or \
        [{"id": "fail-garbage", "fail": "garbage", "opts": ["--ff=AMBER"], "w": None}]
    ref = {}
    for c in pool:
        ref[c["id"]] = fresh(c, rng.choice([0, 1, 7]))
        res.count("fresh_processes")
        if ref[c["id"]].startswith("harness-error"):
            raise RuntimeError(ref[c["id"]])
    # the same structure under a bundled force field with and without a user names file (P, U, P)
    P = None
    for k in range(200):
        c = config(random.Random(spec["seed"] * 13 + k))
        if c["fail"] is None and c.get("flavour") == "plain" and c["w"] and not c["w"].get("named"):
            P = c
            break
    extra_pair = []
    if P is not None:
        ff = P["opts"][0][5:]
        U = dict(P, flavour="usernames", opts=[f"--ff={ff}", "--usernames={dir}/u.names"],
                 userff={"ffseed": spec["seed"] % 100003, "base": ff, "names_only": True})
        U["id"] = hashlib.sha1(json.dumps([U["w"], U["opts"], U["userff"]], sort_keys=True).encode()).hexdigest()[:10]
        for c in (P, U):
            if c["id"] not in ref:
                ref[c["id"]] = fresh(c, 0)
                res.count("fresh_processes")
        extra_pair = [P, U, P]
    # history with forced patterns
    A, B = pool[0], pool[1]
    if spec["seed"] % 2 == 0:
        fails = fails[:1] + [{"id": f"fail-{k}", "fail": k, "opts": ["--ff=AMBER"], "w": None}
                             for k in ("bad_usernames_other_ff", "bad_usernames_broken_xml")]
    hist = [A, B, A, fails[0], A, B, fails[-1], B] + extra_pair
    if len(fails) > 2:
        hist += [fails[1], A]
    hist += [rng.choice(pool + fails) for _ in range(rng.randint(4, 14))]
    hist += [A]
    import_all()
    base_fp = fingerprint()
    prev = None
    seen_before = set()
    trail = []
    for step, c in enumerate(hist):
        dig, _ = run_cfg(c)
        trail.append((c["id"], dig[:14]))
        fp = fingerprint()
        res.count("fingerprints_compared")
        if fp != base_fp:
            changed = sorted(k for k in set(fp) | set(base_fp) if fp.get(k) != base_fp.get(k))
            # Observation, not a verdict: a cache that never changes output keeps the property.  The locations are
            # reported in the evidence and the remaining history (which revisits every configuration) decides.
            res.count("module_state_changes_observed")
            res.note(f"module-level state changed by a run of {c['id']} ({c['opts']}): {changed[:5]}")
            base_fp = fp
        if c["fail"]:
            if not dig.startswith("fail:"):
                res.note(f"failing configuration {c['id']} did not fail: {dig}")
            prev = c
            continue
        res.count("runs_compared")
        if c["id"] in seen_before and prev is not None and prev["id"] != c["id"]:
            res.count("aba_steps")
            res.nt(c["id"], prev["id"])
        if prev is not None and prev["fail"]:
            res.count("after_failure_steps")
        res.cell("history", c.get("flavour"), "after-fail" if prev is not None and prev["fail"] else "after-ok")
        if dig != ref[c["id"]]:
            res.violate("history/differs-from-fresh-process", f"step {step}: configuration {c['id']} ({c['opts']}) gave "
                        f"{dig[:20]} after history {trail[-5:]}, a fresh process gives {ref[c['id']][:20]}",
                        cfg=c, trail=trail)
        seen_before.add(c["id"])
        prev = c
    res.sample = {"kind": "history", "length": len(hist), "trail": trail[:10], "pool": [(c["id"], c["opts"]) for c in pool]}


def setup_worker():
    import logging
    logging.getLogger().setLevel(logging.CRITICAL)


def run_case(spec):
    res = Res()
    if spec["kind"] == "fresh":
        run_fresh(spec, res)
    else:
        run_history(spec, res)
    return res


if __name__ == "__main__":
    import logging
    common.ensure_deps()
    logging.getLogger().setLevel(logging.CRITICAL)
    cfg_ = json.loads(sys.argv[1])
    d_, _t = run_cfg(cfg_)
    print("DIGEST " + d_)
