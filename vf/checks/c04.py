"""C04 - input coordinates are preserved; only rigid side-chain rotations move atoms.

(a) end state: every input heavy atom is compared with an independent column read of the input - backbone, cap,
    nucleic-acid and water atoms must not move at all; side-chain atoms may move only if every bond length and
    1-3 distance among the residue's input heavy atoms is unchanged; nothing moves under --clean, --assign-only or
    --nodebump --noopt.
(b) in vivo: pre/post contract on every Debump.set_dihedral_angle call (also driven directly over every residue
    type x chain position x dihedral x random angles): the moved set must be the atoms connected beyond the pivot
    bond (BFS over the bond graph, not the code's refdistance ranking).
"""
import logging
import random

import numpy as np

from .. import common, pipeline
from ..gen import pdbfmt, workload
from ..gen import structures as S
from ..mon import pkastub, build, geom, match, torsion
from ..ref import states
from ..ref import topology as topo
from ..run import Res

ID = "C04"
LEVEL = "exploration"
EVAL_COUNTER = "input_heavy_atoms_compared"
RULE = ("run cases: dense synthetic packings and fragments with side chains truncated beyond CB (rebuilt into "
        "neighbours => debumping), terminal residues of every type (lattice), flip-prone ASN/GLN/HIS, waters; options "
        "default / noopt / nodebump / both / assign-only / clean. direct cases: every residue type x N/I/C position x "
        "dihedral x 5 random target angles on live objects. Non-trivial: run in which at least one input heavy atom "
        "moved or a torsion call was observed, or a direct torsion call; distinct = (residue, position, dihedral index) "
        "for torsion calls and (force field, options, seed) for runs"
        ' Round-2 additions: long real stretches; the pKa route crossed with every stage switch on debump-stress inputs (--nodebump --noopt with propka must not move anything).'
        ' Round-3/4 additions: terminal-patch alias names (OT1/OT2, HT1..) with --neutraln/--neutralc; unequal carboxyl C-O bonds; carbon obstacles (single ALA, CB at the site of a polar or terminal hydrogen) and PRO in the debump-stress pools.')
ASSUMPTIONS = ["input coordinates are read by the harness' own column reader; atoms are matched by residue (generator "
               "truth) and documented alternate names",
               "tolerances: 5e-4 A for 'did not move', 2e-3 A bond lengths, 3e-3 A 1-3 distances (the file has 3 decimals "
               "but moved atoms are compared in memory, so these are numerical-noise bounds)"]
MIN = {"quick": {"input_heavy_atoms_compared": 15000, "torsion_calls_invivo": 200, "torsion_calls_direct": 1500,
                 "moved_side_chain_atoms": 40, "no_move_option_runs": 30, "pka_route_runs": 20, "written_coordinates_compared": 8000},
       "thorough": {"input_heavy_atoms_compared": 300000, "torsion_calls_invivo": 8000, "torsion_calls_direct": 60000,
                    "moved_side_chain_atoms": 1500, "no_move_option_runs": 700, "pka_route_runs": 1000, "written_coordinates_compared": 500000}}
FIXED = ("N", "CA", "C", "O", "OXT")


def cases(tier, seed):
    out = []

    def opts(rng, spec):
        o = [f"--ff={spec['ff']}"]
        c = rng.random()
        if c < 0.1:
            o.append("--noopt")
        elif c < 0.2:
            o.append("--nodebump")
        elif c < 0.3:
            o += ["--nodebump", "--noopt"]
        elif c < 0.36:
            o.append("--clean")
        if spec["ff"] == "PARSE" and "--clean" not in o and rng.random() < 0.35:
            o.append(rng.choice(["--neutraln", "--neutralc"]))
        if "--clean" not in o and rng.random() < 0.15:
            # the pKa route (stubbed pKa source, random table): hydrogens are stripped, states changed, hydrogens
            # rebuilt and debumped again
            o += pkastub.titration_opts(rng)
        return o

    for rep in range(1 if tier == "quick" else 30):
        for spec in workload.lattice_cases(seed * 43 + rep, opts_fn=opts, p={"damage_prob": 0.5, "carboxyl_asym_prob": 0.4, "dense_prob": 1.0}):
            spec["kind"] = "run"
            spec["p"]["dense_prob"] = 1.0
            out.append(spec)
    n = 150 if tier == "quick" else 18000
    for spec in workload.standard_cases(tier, seed, n, n, opts_fn=opts, frag_share=0.35,
                                        p={"variant_prob": 0.1, "na_prob": 0.1, "waters": [0, 2, 5], "damage_prob": 0.4, "carboxyl_asym_prob": 0.4,
                                           "alias_prob": 0.25, "offset_prob": 0.2,
                                           "dense_prob": 0.9, "pool": None, "crowd_prob": 0.35}):
        spec["kind"] = "run"
        if len(out) % 8 == 3 and "--clean" not in spec["opts"]:
            spec["enc"] = "cif"
        out.append(spec)
    # long stretches / whole chains of the real proteins
    for spec in workload.long_cases(seed, 7 if tier == "quick" else 420, opts_fn=opts,
                                    long_max=150 if tier == "quick" else 400):
        spec["kind"] = "run"
        out.append(spec)
    # debump stress: long side chains hemmed in by many obstacle waters => multi-round debumping where some rounds
    # improve and later ones do not
    nstress = 48 if tier == "quick" else 6000
    rng = random.Random(seed * 77 + 5)
    for i in range(nstress):
        ff = common.FFS[i % 6]
        # every stage switch crossed with the pKa route, on inputs where debumping has work to do
        cyc = [[], ["--nodebump", "--noopt"], ["--nodebump", "--noopt", "pka"], ["pka"], ["--noopt"], ["--nodebump"],
               ["--noopt", "pka"], ["--nodebump", "pka"]][(i // 6) % 8]
        o = [f"--ff={ff}"] + [x for x in cyc if x != "pka"] + (pkastub.titration_opts(rng) if "pka" in cyc else [])
        out.append({"kind": "run", "w": "synth", "seed": seed * 900001 + i, "ff": ff, "opts": o,
                    "p": {"crowd_prob": 0.6, "crowd_heavy_prob": 1.0, "carbon_obstacle_prob": 0.5, "shuffle_atoms_prob": 0.3, "minlen": 5, "maxlen": 9, "na": False, "waters": [0],
                          "hydrogens": ["none", "none", "some"], "variant_prob": 0.05,
                          "pool": ["ARG", "LYS", "GLU", "GLN", "MET", "ILE", "LEU", "TRP", "PHE", "TYR", "HIS", "ASN",
                                   "ASP", "THR", "VAL", "SER", "PRO", "PRO"]}})
        if i % 3 == 1:
            # residues that share their number and differ only by insertion code (13, 13A): a residue is chain +
            # number + insertion code everywhere, in the debumper's bookkeeping too
            out[-1]["p"]["icode_prob"] = 1.0
        if i % 6 == 2:
            # long / ring side chains at the chain ends (terminal torsions and caps meet deep side-chain torsions)
            out[-1]["p"]["nterm_pool"] = ["ARG", "TRP", "ARG", "TRP", "LYS", "MET", "GLN"]
            out[-1]["p"]["cterm_pool"] = ["ARG", "TRP", "PRO", "LYS", "MET", "GLN", "GLU", "HIS", "TYR"]
        elif i % 6 in (4, 5):
            # an imino N-terminus (one amine hydrogen less, ring closed onto N) with an obstacle at its hydrogen
            out[-1]["p"]["nterm_pool"] = ["PRO", "PRO", "PRO", "GLU", "HIS"]
            out[-1]["p"]["cterm_pool"] = ["PRO", "ARG", "TRP", "LYS", "GLN"]
            out[-1]["p"]["carbon_obstacle_prob"] = 1.0
    nd = 16 if tier == "quick" else 2000
    out += [{"kind": "direct", "seed": seed * 1000 + i} for i in range(nd)]
    return out


def internal_pairs(base):
    """bonded pairs and 1-3 pairs of heavy atoms from our own topology parse (terminal caps included)."""
    res, patches, _ = topo.load()
    d = topo.apply_patch(res[base], patches["CTERM"])
    heavy = [a for a in d.atoms if not a.startswith("H") and a not in ("N+1", "C-1")]
    bonds = set()
    for a in heavy:
        for b in d.atoms[a]["bonds"]:
            if b in heavy:
                bonds.add(tuple(sorted((a, b))))
    one3 = set()
    for a in heavy:
        nb = [b for b in d.atoms[a]["bonds"] if b in heavy]
        for i in range(len(nb)):
            for j in range(i):
                one3.add(tuple(sorted((nb[i], nb[j]))))
    return bonds, one3 - bonds


def problems_of(fin, tr, nomove):
    """fin: name -> (input xyz, final xyz).  Returns [(mechanism key, detail)]."""
    out = []
    moved = {n: float(np.linalg.norm(c[1] - c[0])) for n, c in fin.items()}
    moved = {n: d for n, d in moved.items() if d > 5e-4}
    if not moved:
        return out
    if nomove:
        return [("endstate/moved-although-options-forbid-any-move", f"{sorted(moved)} moved")]
    if tr["kind"] != "aa":
        return [(f"endstate/non-protein-atom-moved/{tr['kind']}", f"{sorted(moved)} moved by up to "
                 f"{max(moved.values()):.3f} A")]
    fixed_moved = [n for n in moved if n in FIXED]
    if fixed_moved:
        out.append((f"endstate/backbone-or-cap-moved/{fixed_moved[0]}", f"{fixed_moved} moved by "
                    f"{[round(moved[n], 3) for n in fixed_moved]} A"))
    bonds, one3 = internal_pairs(tr["base"])
    for pairs_, tol, what in ((bonds, 2e-3, "bond-length"), (one3, 3e-3, "bond-angle")):
        for a1, a2 in sorted(pairs_):
            if a1 in fin and a2 in fin and (a1 in moved or a2 in moved):
                d0 = np.linalg.norm(fin[a1][0] - fin[a2][0])
                d1 = np.linalg.norm(fin[a1][1] - fin[a2][1])
                if abs(d0 - d1) > tol:
                    cap = "OXT" in (a1, a2)
                    out.append((f"endstate/{what}-changed/{'cap' if cap else 'side-chain'}",
                                f"{a1}-{a2} distance {d0:.4f} -> {d1:.4f}"))
                    break
    return out


def check_endstate(res, spec, m, r, opts):
    from .c03 import norm_name
    pairs = match.match_residues(r.bio, m["items"], m["truth"])
    idx, _nb = match.input_index(m["items"])
    by_ord = {}
    for xyz, (ordinal, name, _resi) in idx.items():
        by_ord.setdefault(ordinal, {})[name] = np.array(xyz)
    tord = {id(t): k for k, t in enumerate(m["truth"])}
    nomove = opts.clean or opts.assign_only or (opts.nodebump and opts.noopt)
    any_moved = False
    # every input residue must be found at its input coordinates (matching is by coordinates: a residue none of whose
    # atoms sits where the file put it was moved as a whole, or read from the wrong columns)
    located = {id(tr) for _r, tr in pairs if tr is not None}
    if _nb == len(m["truth"]):
        lostres = [t for t in m["truth"] if t["kind"] in ("aa", "na") and id(t) not in located]
        res.count("input_residues_located", len(located))
        if lostres:
            res.count("input_residues_not_located", len(lostres))
            res.violate("endstate/input-residue-not-at-its-input-coordinates", f"{len(lostres)} of {len(m['truth'])} input "
                        f"residues have no atom at its input coordinates in the final model, e.g. "
                        f"{[(t['resn'], t['chain'], t['resi']) for t in lostres[:4]]}", ff=spec["ff"], opts=spec["opts"],
                        seed=spec["seed"], w=spec["w"], enc=spec.get("enc", "pdb"))
    # the written file is what the user gets: an input heavy atom that did not move in the model must be written with
    # exactly its input coordinates (three decimals)
    written = match.written_atoms(r.bio, r.missed)
    pq = pipeline.parse_pqr(r.pqr_text) if r.pqr_text else []
    line_of = {id(a): ln for a, ln in zip(written, pq)} if len(pq) == len(written) else {}
    text_bad = []
    for residue, tr in pairs:
        if tr is None:
            continue
        if line_of:
            inp0 = by_ord.get(tord[id(tr)], {})
            base0 = tr["base"] if tr["kind"] == "aa" else None
            for raw, p0 in inp0.items():
                n0 = norm_name(base0, raw) if base0 else raw
                a0 = residue.get_atom(n0)
                if a0 is None or id(a0) not in line_of or n0.startswith("H") or \
                        float(np.linalg.norm(np.array([a0.x, a0.y, a0.z]) - p0)) > 5e-4:
                    continue
                ln = line_of[id(a0)]
                res.count("written_coordinates_compared")
                if (ln["xs"], ln["ys"], ln["zs"]) != tuple("%.3f" % v for v in p0) and len(text_bad) < 3 and \
                        all(len("%.3f" % v) <= 8 for v in p0):
                    text_bad.append((f"{tr['resn']} {tr['resi']} {n0}", tuple("%.3f" % v for v in p0),
                                     (ln["xs"], ln["ys"], ln["zs"])))
        inp = by_ord.get(tord[id(tr)], {})
        base = tr["base"] if tr["kind"] == "aa" else None
        fin, moved = {}, {}
        for raw, p0 in inp.items():
            n = norm_name(base, raw) if base else raw
            if n.startswith("H") or raw.lstrip("0123456789").startswith("H"):
                continue
            a = residue.get_atom(n)
            if a is None:
                continue    # deletions are C03's subject
            p1 = np.array([a.x, a.y, a.z])
            d = float(np.linalg.norm(p1 - p0))
            res.count("input_heavy_atoms_compared")
            fin[n] = (p0, p1)
            if d > 5e-4:
                moved[n] = d
        if not moved:
            continue
        pos = "I" if tr.get("cyclic") else tr["pos"]
        wit = {"ff": spec["ff"], "opts": spec["opts"], "seed": spec["seed"], "w": spec["w"],
               "residue": f"{tr['resn']} {tr['chain']} {tr['resi']}", "position": pos,
               "moved": {k: round(v, 4) for k, v in moved.items()}}
        # Label exchange between the two chemically equivalent oxygens of a protonated carboxylic group (the
        # optimiser renames them so that the hydrogen sits on *2 / OXT): no atom moves, names are swapped.  Every
        # relabelling of the final positions over the pairs present is tried; the residue is fine if one explains it.
        final_pos = {a.name: np.array([a.x, a.y, a.z]) for a in residue.atoms}
        swaps = [pr for pr in (("OD1", "OD2"), ("OE1", "OE2"), ("O", "OXT"))
                 if (pr[0] in fin or pr[1] in fin) and pr[0] in final_pos and pr[1] in final_pos]
        best = None
        for mask in range(2 ** len(swaps)):
            cand = dict(fin)
            for bit, (a1, a2) in enumerate(swaps):
                if mask >> bit & 1:
                    # the partner may be an atom pdb2pqr rebuilt (not in the input): only input atoms are judged
                    if a1 in fin:
                        cand[a1] = (fin[a1][0], final_pos[a2])
                    if a2 in fin:
                        cand[a2] = (fin[a2][0], final_pos[a1])
            probs = problems_of(cand, tr, nomove)
            if best is None or len(probs) < len(best[0]):
                best = (probs, mask)
            if not probs:
                break
        probs, mask = best
        if mask:
            res.count("carboxylic_label_swaps")
        mv = {n: float(np.linalg.norm(c[1] - c[0])) for n, c in fin.items()}
        if any(v > 5e-4 for v in mv.values()) or probs:
            any_moved = True
        res.count("moved_side_chain_atoms", sum(1 for n, v in mv.items() if v > 5e-4 and n not in FIXED))
        for key, detail in probs[:3]:
            res.violate(key, f"{tr['resn']} {tr['resi']} (position {pos}): {detail}", **wit)
    for who, want, got in text_bad:
        res.violate("written/unmoved-input-atom-written-with-other-coordinates", f"{who}: input {want}, written {got}",
                    ff=spec["ff"], opts=spec["opts"], seed=spec["seed"], w=spec["w"])
    return any_moved


def run_run(spec, res):
    geom.install()
    m = workload.materialise(spec)
    geom.drain()
    text, suffix = m["text"], ".pdb"
    if spec.get("enc") == "cif" and "items" in m:
        # the same structure handed over as mmCIF (column layouts varied): coordinates are data, whatever the encoding
        from ..gen import cifwriter
        lay = ["wwpdb", "short", "extra", "shuffled", "esd"][spec["seed"] % 5]
        text, suffix = cifwriter.write(m["items"], layout=lay, rng=random.Random(spec["seed"] + 31)), ".cif"
        res.count("cif_encoded_inputs")
    with pkastub.for_opts(spec["opts"], m["truth"], spec["seed"]) as titr:
        r = pipeline.run(text, spec["opts"], workname="c04", suffix=suffix)
    ev, counts = geom.drain()
    res.count("runs")
    if titr is not None:
        res.count("pka_route_runs")
    res.count("torsion_calls_invivo", counts["set_dihedral"])
    for u in geom.STATE["unavailable"]:
        res.note("hook_unavailable " + u)
    opts = states.Opts(spec["opts"])
    if opts.clean or opts.assign_only or (opts.nodebump and opts.noopt):
        res.count("no_move_option_runs")
    # in-vivo events: C04 owns dragged *input heavy* atoms (dragged added atoms are C05's subject)
    seen = set()
    for e in ev:
        if e["hook"] != "set_dihedral_angle" or e["clause"] not in ("dragged", "nonrigid"):
            continue
        if e["clause"] == "dragged" and (e["atom_added"] or e["atom_is_h"]):
            continue
        key = f"invivo/torsion-{e['clause']}/{e['atom'] or ''}"
        if key in seen:
            continue
        seen.add(key)
        res.violate(key, f"{e['residue']} ({'N-term ' if e['n_term'] else ''}{'C-term ' if e['c_term'] else ''}"
                    f"{e['dihedral']}): {e['detail']}", ff=spec["ff"], opts=spec["opts"], seed=spec["seed"], w=spec["w"],
                    event=e)
    if not r.ok:
        res.count("runs_failed")
        return
    res.count("runs_ok")
    moved = check_endstate(res, spec, m, r, opts)
    if moved or counts["set_dihedral"]:
        res.nt(spec["ff"], tuple(spec["opts"]), spec["seed"])
    res.cell("run", spec["ff"], tuple(o for o in spec["opts"] if not o.startswith("--ff")))
    res.sample = {"kind": "run", "ff": spec["ff"], "opts": spec["opts"], "torsion_calls": counts["set_dihedral"],
                  "moved": moved}


def run_direct(spec, res):
    rng = random.Random(spec["seed"])
    seq = list(topo.AMINO)
    rng.shuffle(seq)
    k = spec["seed"] % len(seq)
    seq = seq[k:] + seq[:k]
    chains = [S.peptide(seq[i:i + 4], rng) for i in range(0, 20, 4)]
    S.scatter(chains, rng)
    items, truth = S.assemble([{"id": "ABCDE"[i], "start": 1, "residues": ch} for i, ch in enumerate(chains)])
    bio, deb, _ = build.biomolecule_from_text(pdbfmt.to_text(items))
    for residue, tr in zip(bio.residues, truth):
        for anglenum, dname in enumerate(residue.reference.dihedrals):
            names = dname.split()
            if not all(residue.has_atom(n) for n in names) or residue.dihedrals[anglenum] is None:
                continue
            for _ in range(5):
                angle = rng.uniform(-180, 180)
                before = torsion.snapshot(residue)
                added = {a.name: (bool(a.added), a.name[0] == "H") for a in residue.atoms}
                deb.set_dihedral_angle(residue, anglenum, angle)
                after = torsion.snapshot(residue)
                res.count("torsion_calls_direct")
                res.nt("direct", tr["base"], tr["pos"], anglenum)
                res.cell("direct", tr["base"], tr["pos"], anglenum)
                for clause, mech, detail in torsion.check_torsion_change(residue, names, angle, before, after):
                    if clause not in ("dragged", "nonrigid"):
                        continue
                    atom = mech.split("/", 1)[1] if "/" in mech else ""
                    if clause == "dragged" and (added.get(atom, (False, False))[0] or added.get(atom, (False, False))[1]):
                        continue
                    res.violate(f"direct/torsion-{clause}/{atom}", f"{residue} at position {tr['pos']} ({dname}): {detail}",
                                seq=seq, residue=str(residue), dihedral=dname, angle=angle)
    res.sample = {"kind": "direct", "sequence": seq}


def setup_worker():
    logging.getLogger().setLevel(logging.ERROR)


def run_case(spec):
    res = Res()
    if spec["kind"] == "run":
        run_run(spec, res)
    else:
        run_direct(spec, res)
    return res
