"""C09 - formatting and naming options never change the computed model.

Metamorphic comparison of recorded outputs of pairs of real runs that differ in exactly one option (random walks
on the option lattice), --drop-water vs the water-stripped file, and --neutraln/--neutralc vs the charged run.
"""
import random

from .. import common, pipeline
from ..mon import pkastub
from ..gen import pdbfmt, workload
from ..run import Res

ID = "C09"
LEVEL = "exploration"
EVAL_COUNTER = "pairs_compared"
RULE = ("random walks on {whitespace, keep-chain, include-header, pdb-output, apbs-input, ffout in 6 schemes or none} "
        "over generated structures (peptides with variants, nucleic strands, waters, hetero groups, fragments) x six "
        "force fields x pipeline variants {default, noopt, nodebump, assign-only-free, drop-water}; each step flips one "
        "option and is compared with its predecessor on the token text of x/y/z/charge/radius and atom order. "
        "drop-water pairs: run with the flag vs run on the file without water records (bytes). neutral pairs (PARSE): "
        "charged vs --neutraln / --neutralc. Non-trivial: pair whose outputs have >= 20 atoms; distinct = (option "
        "flipped, from/to value, force field, pipeline variant, structure seed)"
        ' Round-2 additions: insertion codes in the option walks; big serials in the drop-water pairs; an output the reference tokenizer cannot read after an option flip is a violation.'
        " Round-3/4 additions: water numbering that collides with the protein's (same chain, numbering restarts) in the drop-water pairs.")
ASSUMPTIONS = ["'byte-identical' is judged on the numeric token text of the PQR atom lines (fixed columns or tokens)",
               "a terminus counts as 'actually neutralised' when the atoms of the two outputs show the lost amine "
               "hydrogen (N) or the gained HO (C)"]
MIN = {"quick": {"pairs_compared": 350, "dropwater_pairs": 15, "neutral_pairs": 22, "ffout_pairs": 60, "dropwater_colliding_numbering": 4, "neutral_pairs_pka_route": 3, "ligand_walks": 8, "dropwater_pairs_one_letter_rna": 1},
       "thorough": {"pairs_compared": 12000, "dropwater_pairs": 800, "neutral_pairs": 700, "ffout_pairs": 2000, "dropwater_colliding_numbering": 400, "neutral_pairs_pka_route": 400, "ligand_walks": 400, "dropwater_pairs_one_letter_rna": 100}}
FLAGS = ["whitespace", "keepchain", "header", "pdbout", "apbs", "ffout"]


def cases(tier, seed):
    n, steps = (56, 8) if tier == "quick" else (3000, 16)
    out = []
    for i in range(n):
        ff = common.FFS[i % 6]
        out.append({"kind": "walk", "w": "frag" if i % 4 == 3 else "synth", "seed": seed * 12007 + i, "ff": ff,
                    "steps": steps, "p": {"maxlen": 6, "na_prob": 0.15, "waters": [0, 2, 4], "variant_prob": 0.15,
                                          "icode_prob": 0.3}})
    # complexes run with --ligand: the ligand's atoms are appended to the written list by main.non_trivial, whatever the
    # ligand's place in the file (here: before the waters, or between two peptides)
    for i in range(12 if tier == "quick" else 600):
        out.append({"kind": "walk", "w": "complex", "seed": seed * 12011 + i, "ff": ["AMBER", "PARSE", "CHARMM"][i % 3],
                    "steps": steps, "p": {}})
    nd = 30 if tier == "quick" else 3500
    for i in range(nd):
        out.append({"kind": "dropwater", "w": "frag" if i % 3 == 0 else "synth", "seed": seed * 13001 + i,
                    "ff": common.FFS[i % 6], "p": {"maxlen": 6, "waters": [2, 4, 7], "na_prob": 0.1}})
    # nucleic strands with waters (RNA under both naming styles - RA.. and the one-letter v3 names - and DNA)
    for i in range(18 if tier == "quick" else 600):
        out.append({"kind": "dropwater", "w": "synth", "seed": seed * 13003 + i, "ff": ["AMBER", "CHARMM", "TYL06"][i % 3],
                    "nucleic": True, "p": {"na_prob": 1.0, "waters": [2, 4], "nchains": 1 + i % 2}})
    nn = 48 if tier == "quick" else 4000
    for i in range(nn):
        if i % 4 == 3:
            # chain ends hidden inside one chain id (two peptides, no TER, the first ends in OXT)
            out.append({"kind": "neutral", "w": "topostress", "seed": seed * 14009 + i, "ff": "PARSE",
                        "p": {"scheme": ["merged_oxt", "repeated_oxt", "blank_ter", "het_tail"][(i // 4) % 4]}})
            continue
        pp = {"maxlen": 5, "waters": [0, 2], "na": False, "variant_prob": 0.1}
        if i % 2 == 1:
            # termini whose residue is in a non-default state: titratable residues at the chain ends, and (in
            # run_neutral) the pKa route with the same stubbed table on both sides of the pair
            pp["pool"] = ["HIS", "ASP", "GLU", "LYS", "TYR", "CYS", "ARG", "HIS", "ASP", "GLU", "ALA", "SER"]
        out.append({"kind": "neutral", "w": "synth", "seed": seed * 14009 + i, "ff": "PARSE", "p": pp})
    return out


def opts_of(state, ff, base):
    o = [f"--ff={ff}"] + base
    if state["whitespace"]:
        o.append("--whitespace")
    if state["keepchain"]:
        o.append("--keep-chain")
    if state["header"]:
        o.append("--include-header")
    if state["pdbout"]:
        o.append("--pdb-output={dir}/o.pdb")
    if state["apbs"]:
        o.append("--apbs-input={dir}/o.in")
    if state["ffout"]:
        o.append(f"--ffout={state['ffout']}")
    return o


def numeric(pq):
    return [(a["xs"], a["ys"], a["zs"], a["qs"], a["rs"]) for a in pq]


def ident(pq):
    return [(a["rec"], a["serial"], a["resi"]) for a in pq]


def names(pq):
    return [(a["name"], a["resn"]) for a in pq]


def _unparsable(line, whitespace):
    try:
        pipeline.parse_pqr(line + "\n", whitespace=whitespace)
        return False
    except (ValueError, IndexError, KeyError):
        return True


def build_complex(rng):
    """Peptide + ligand hetero group (not the last residue of the file) + waters [+ a second peptide]."""
    import numpy as np
    from ..gen import mol2gen, pdbfmt
    from ..gen import structures as S
    from .c16 import het_residue, params
    for _ in range(20):
        if rng.random() < 0.5:
            path = rng.choice([p for p in mol2gen.LOCAL if len(mol2gen.parse(p.read_text())["atoms"]) < 60])
            mol = mol2gen.parse(path.read_text())
        else:
            mol = mol2gen.random_molecule(rng, 2, 6)
        for a in mol["atoms"]:
            a["resn"] = "LIG"
        if {a["name"] for a in mol["atoms"]} & {"O", "H1", "H2"}:
            continue
        lig_text = mol2gen.write(mol)
        try:
            params(lig_text)
        except Exception:  # noqa: BLE001
            continue
        break
    else:
        return None
    pool = ["ALA", "GLY", "SER", "LEU", "LYS", "ASP", "THR", "VAL", "ASN"]
    pep = S.peptide(S.random_sequence(rng, rng.randint(3, 5), pool=pool), rng)
    c0 = S.centroid(pep)
    entries = [{"id": "A", "start": 1, "residues": pep},
               {"id": rng.choice(["A", "L"]), "start": 301, "residues": [het_residue(mol, "LIG", c0 + np.array([25.0, 0, 0]))]}]
    wat = [S.water(c0 + np.array([0, -12.0, 0]), rng, spread=3.0) for _ in range(rng.randint(1, 3))]
    entries.append({"id": rng.choice(["A", "W"]), "start": 401, "residues": wat})
    if rng.random() < 0.4:
        pep2 = S.peptide(S.random_sequence(rng, 3, pool=pool), rng)
        S.transform(pep2, np.eye(3), np.array([0.0, 30.0, 0.0]))
        entries.append({"id": "B", "start": 1, "residues": pep2})
    items, truth = S.assemble(entries)
    return {"text": pdbfmt.to_text(items), "truth": truth, "lig_text": lig_text}


def run_walk(spec, res):
    rng = random.Random(spec["seed"])
    extra_files = None
    if spec["w"] == "complex":
        m = build_complex(rng)
        if m is None:
            res.note("no parameterisable ligand drawn")
            return
        extra_files = {"lig.mol2": m["lig_text"]}
        variant = rng.choice(["default", "noopt", "nodebump", "dropwater"])
        res.count("ligand_walks")
    else:
        m = workload.materialise(spec)
        variant = rng.choice(["default", "default", "noopt", "nodebump", "dropwater", "titr", "titr"])
    base = {"default": [], "noopt": ["--noopt"], "nodebump": ["--nodebump"], "dropwater": ["--drop-water"],
            "titr": []}[variant]
    table = None
    if variant == "titr":
        # pKa-driven states through the stubbed pKa source (same table for the whole walk): naming/formatting options
        # must not change which states are chosen
        from . import c06
        c06.install()
        ph = round(rng.choice([rng.uniform(0, 14), rng.uniform(9.5, 14), rng.uniform(0, 4)]), 2)
        table, _groups = c06.make_table(m["truth"], rng, ph)
        for row in table:
            row["pKa"] = row["model_pKa"] = round(rng.uniform(0.5, 13.5), 2)
        base = ["--titration-state-method=propka", f"--with-ph={ph}"]
    if extra_files:
        base = base + ["--ligand={dir}/lig.mol2"]
        variant = "ligand-" + variant
    state = {f: False for f in FLAGS}
    state["ffout"] = None
    prev = None
    for step in range(spec["steps"] + 1):
        if step:
            flip = rng.choice(FLAGS)
            old = state[flip]
            if flip == "ffout":
                state["ffout"] = rng.choice([f for f in common.FFS + [None] if f != old])
            else:
                state[flip] = not old
            change = (flip, str(old), str(state[flip]))
        else:
            change = ("start", "", "")
        opts = opts_of(state, spec["ff"], base)
        if table is not None:
            from . import c06
            c06.STUB["table"] = table
        try:
            r = pipeline.run(m["text"], opts, workname="c09", extra_files=extra_files)
        finally:
            if table is not None:
                c06.STUB["table"] = None
        if not r.ok:
            res.count("runs_failed")
            if prev is not None:
                res.violate("option/makes-run-fail", f"adding/removing {change} makes the run fail with "
                            f"{type(r.exc).__name__}: {str(r.exc)[:80]} (previous option set succeeded)", opts=opts,
                            prev_opts=prev[0], ff=spec["ff"], seed=spec["seed"])
            elif step == 0:
                res.note(f"base run failed: {spec['ff']} {type(r.exc).__name__}")
                return
            continue
        try:
            pq = pipeline.parse_pqr(r.pqr_text, whitespace=state["whitespace"])
        except (ValueError, IndexError, KeyError) as e:
            # the reference tokenizer reads every layout of the unchanged writer; an unreadable file after flipping
            # a formatting option means the option changed more than spacing
            bad = next((ln for ln in r.pqr_text.split("\n") if ln.startswith(("ATOM", "HETATM")) and
                        _unparsable(ln, state["whitespace"])), "")
            res.violate(f"option/{change[0]}/output-unreadable", f"after flipping {change} the PQR records cannot be "
                        f"tokenised ({type(e).__name__}: {e}); e.g. {bad!r}", opts=opts, ff=spec["ff"], seed=spec["seed"],
                        w=spec["w"], variant=variant)
            continue
        cur = (opts, pq)
        if prev is not None:
            res.count("pairs_compared")
            if change[0] == "ffout":
                res.count("ffout_pairs")
                if extra_files:
                    res.count("ffout_pairs_with_ligand")
            res.cell(change[0], spec["ff"], variant)
            if len(pq) >= 20:
                res.nt(change, spec["ff"], variant, spec["seed"])
            wit = {"change": change, "opts": opts, "prev_opts": prev[0], "ff": spec["ff"], "seed": spec["seed"],
                   "w": spec["w"], "variant": variant}
            a, b = prev[1], pq
            if len(a) != len(b):
                res.violate(f"option/{change[0]}/atom-count", f"{len(a)} atoms before, {len(b)} after flipping {change}",
                            **wit)
            else:
                if ident(a) != ident(b):
                    k = next(i for i, (x, y) in enumerate(zip(ident(a), ident(b))) if x != y)
                    res.violate(f"option/{change[0]}/order-or-numbering", f"line {k}: {ident(a)[k]} -> {ident(b)[k]}", **wit)
                if numeric(a) != numeric(b):
                    k = next(i for i, (x, y) in enumerate(zip(numeric(a), numeric(b))) if x != y)
                    res.violate(f"option/{change[0]}/numbers-changed", f"line {k}: {a[k]['line']!r} -> {b[k]['line']!r}",
                                **wit)
                if change[0] not in ("ffout",) and names(a) != names(b):
                    k = next(i for i, (x, y) in enumerate(zip(names(a), names(b))) if x != y)
                    res.violate(f"option/{change[0]}/names-changed", f"line {k}: {names(a)[k]} -> {names(b)[k]}", **wit)
                if change[0] == "keepchain":
                    ca = {x["chain"] for x in (b if state["keepchain"] else a)}
                    cb = {x["chain"] for x in (a if state["keepchain"] else b)}
                    if cb - {""}:
                        res.violate("option/keepchain/chain-written-without-flag", f"chain ids {cb} written without "
                                    f"--keep-chain", **wit)
        prev = cur
    res.sample = {"kind": "walk", "ff": spec["ff"], "variant": variant, "last_opts": prev[0] if prev else None,
                  "atoms": len(prev[1]) if prev else 0}


def run_dropwater(spec, res):
    rng = random.Random(spec["seed"])
    m = workload.materialise(spec)
    extra = rng.choice([[], ["--whitespace"], ["--noopt"], ["--keep-chain"]])
    # waters appear as HETATM or ATOM records and under both residue names
    choice = {}
    for it in m["items"]:
        if isinstance(it, dict) and it["resn"] in ("HOH", "WAT"):
            k = (it["chain"], it["resi"], it["icode"])
            if k not in choice:
                choice[k] = ("ATOM" if rng.random() < 0.4 else it["rec"],
                             ("WAT" if it["resn"] == "HOH" else "HOH") if rng.random() < 0.3 else it["resn"])
            it["rec"], it["resn"] = choice[k]
    if spec["seed"] % 3 == 0:
        # legacy numbering: the waters sit at the end of the file in the protein's chain and their numbering
        # restarts at the protein's first residue number (a water and a residue share chain + number, not adjacent)
        prot = [it for it in m["items"] if isinstance(it, dict) and it["resn"] not in ("HOH", "WAT")]
        if prot:
            chain, first = prot[0]["chain"], prot[0]["resi"]
            remap = {}
            for it in m["items"]:
                if isinstance(it, dict) and it["resn"] in ("HOH", "WAT"):
                    k = (it["chain"], it["resi"], it["icode"])
                    if k not in remap:
                        remap[k] = first + len(remap)
                    it["chain"], it["resi"], it["icode"] = chain, remap[k], ""
            res.count("dropwater_colliding_numbering")
    m["text"] = pdbfmt.to_text(m["items"])
    stripped = [it for it in m["items"] if not (isinstance(it, dict) and it["resn"] in ("HOH", "WAT"))]
    nw = len(m["items"]) - len(stripped)
    if nw == 0:
        return
    # keep serial numbers as they are (the stripped file is 'the input with its waters deleted')
    t2 = pdbfmt.to_text(stripped)
    ra = pipeline.run(m["text"], [f"--ff={spec['ff']}", "--drop-water"] + extra, workname="c09")
    rb = pipeline.run(t2, [f"--ff={spec['ff']}"] + extra, workname="c09")
    if not (ra.ok and rb.ok):
        if ra.ok != rb.ok:
            res.violate("dropwater/one-side-fails", f"--drop-water run ok={ra.ok}, water-stripped input ok={rb.ok}",
                        ff=spec["ff"], seed=spec["seed"], extra=extra)
        return
    res.count("pairs_compared")
    res.count("dropwater_pairs")
    if spec.get("nucleic"):
        res.count("dropwater_pairs_nucleic")
        if any(isinstance(it, dict) and it["resn"] in ("A", "C", "G", "U") for it in m["items"]):
            res.count("dropwater_pairs_one_letter_rna")
    res.nt("dropwater", spec["ff"], tuple(extra), spec["seed"])
    res.cell("dropwater", spec["ff"], tuple(extra))
    if ra.pqr_text != rb.pqr_text:
        la, lb = ra.pqr_text.splitlines(), rb.pqr_text.splitlines()
        k = next((i for i, (x, y) in enumerate(zip(la, lb)) if x != y), min(len(la), len(lb)))
        res.violate("dropwater/differs-from-stripped-input", f"{len(la)} vs {len(lb)} lines; first difference at line {k}: "
                    f"{la[k] if k < len(la) else None!r} vs {lb[k] if k < len(lb) else None!r}", ff=spec["ff"],
                    seed=spec["seed"], extra=extra, waters=nw)
    res.sample = {"kind": "dropwater", "ff": spec["ff"], "water_records": nw, "extra": extra}


def run_neutral(spec, res):
    rng = random.Random(spec["seed"])
    m = workload.materialise(spec)
    which = rng.choice([["--neutraln"], ["--neutralc"], ["--neutraln", "--neutralc"]])
    extra = rng.choice([[], [], ["--noopt"], ["--keep-chain"]])
    if "pool" in (spec.get("p") or {}) and rng.random() < 0.7:
        extra = extra + ["--titration-state-method=propka", f"--with-ph={rng.choice([1.0, 3.0, 5.0, 7.0, 9.5, 12.0])}"]
    forced = None
    if rng.random() < 0.6:
        # the termini stay charged on the plain side while the terminal residues' own groups are protonated
        forced = {}
        for k, t in enumerate(m["truth"]):
            if t["kind"] == "aa" and t["pos"] in ("N", "C", "NC"):
                forced[(t["base"], k)] = "below"
                forced[("C-", k)] = "above"
                forced[("N+", k)] = "below"
    with pkastub.for_opts(extra, m["truth"], spec["seed"], forced) as titr:
        ra = pipeline.run(m["text"], ["--ff=PARSE"] + extra, workname="c09")
    with pkastub.for_opts(extra, m["truth"], spec["seed"], forced):
        rb = pipeline.run(m["text"], ["--ff=PARSE"] + which + extra, workname="c09")
    if not ra.ok:
        return
    if titr is not None:
        res.count("neutral_pairs_pka_route")
    wit = {"options": which, "extra": extra, "seed": spec["seed"], "residues": [(t["resn"], t["pos"]) for t in m["truth"]][:14]}
    if not rb.ok:
        msg = " | ".join(mm for lv, _n, mm in rb.log if lv >= 40)[:160]
        cterm_pro = any(t["resn"] == "PRO" and t["pos"] == "C" for t in m["truth"])
        key = "neutral/run-fails/neutralc-on-C-terminal-PRO" if cterm_pro and "--neutralc" in which and "deviates" in msg \
            else "neutral/run-fails"
        # whether a well-formed structure is processed at all is C12's claim, not this property's
        res.count("neutral_runs_failed")
        res.note(f"{key}: {msg}")
        return
    res.count("pairs_compared")
    res.count("neutral_pairs")
    res.nt("neutral", tuple(which), tuple(extra), spec["seed"])
    res.cell("neutral", tuple(which))
    a = pipeline.parse_pqr(ra.pqr_text)
    b = pipeline.parse_pqr(rb.pqr_text)

    def by_res(pq):
        d = {}
        for x in pq:
            d.setdefault((x["resi"], x["resn"], x["chain"], x["rec"]), []).append(x)
        return d

    # residues are identified by running order (numbering may repeat across chains when the chain column is off)
    def blocks(pq):
        out, cur, key = [], [], None
        for x in pq:
            k = (x["resi"], x["resn"])
            if k != key and cur:
                out.append(cur)
                cur = []
            key = k
            cur.append(x)
        if cur:
            out.append(cur)
        return out

    ba, bb = blocks(a), blocks(b)
    if len(ba) != len(bb):
        res.violate("neutral/residue-count", f"{len(ba)} residues vs {len(bb)}", **wit)
        return
    pos = [t for t in m["truth"]]
    shift_expected = 0
    for k, (ra_, rb_) in enumerate(zip(ba, bb)):
        na, nb = {x["name"] for x in ra_}, {x["name"] for x in rb_}
        qa, qb = sum(x["q"] for x in ra_), sum(x["q"] for x in rb_)
        lost_amine = ("H3" in na and "H3" not in nb) or ("H2" in na and "H2" not in nb and "H3" not in na)
        gained_ho = "HO" in nb and "HO" not in na
        same = [(x["name"], x["xs"], x["ys"], x["zs"], x["qs"], x["rs"]) for x in ra_] == \
               [(x["name"], x["xs"], x["ys"], x["zs"], x["qs"], x["rs"]) for x in rb_]
        if (lost_amine and "--neutraln" not in which) or (gained_ho and "--neutralc" not in which):
            res.violate("neutral/terminus-neutralised-without-its-flag", f"residue {ra_[0]['resn']} {ra_[0]['resi']}: "
                        f"{'N-terminus lost an amine hydrogen' if lost_amine else 'C-terminus gained HO'} although only "
                        f"{which} was given", **wit)
        if lost_amine or gained_ho:
            d = (-1 if lost_amine else 0) + (1 if gained_ho else 0)
            shift_expected += d
            res.count("termini_neutralised")
            if abs((qb - qa) - d) > 2e-3:
                res.violate("neutral/terminus-shift-not-unit", f"residue {ra_[0]['resn']} {ra_[0]['resi']}: charge "
                            f"{qa:+.4f} -> {qb:+.4f}, expected shift {d:+d}", **wit)
        elif not same:
            # a residue whose atom set did not gain/lose a terminal proton: must be a chain-terminal residue to differ
            terminal = ("OXT" in na) or ("H2" in na and ra_[0]["resn"] not in ("WAT", "HOH")) or ("H3" in na) or \
                ("H2" in nb and rb_[0]["resn"] not in ("WAT", "HOH")) or ("HO" in nb)
            if not terminal:
                rn = ra_[0]["resn"][-3:]
                polar_h = {"SER": {"HG"}, "THR": {"HG1"}, "TYR": {"HH"}, "CYS": {"HG"}, "WAT": {"H1", "H2"},
                           "HOH": {"H1", "H2"}}.get(rn, set())
                group = {"ASN": {"OD1", "ND2", "HD21", "HD22"}, "GLN": {"OE1", "NE2", "HE21", "HE22"},
                         "ASH": {"OD1", "OD2", "HD1", "HD2"}, "GLH": {"OE1", "OE2", "HE1", "HE2"}}.get(rn, set())
                da = {x["name"]: (x["xs"], x["ys"], x["zs"], x["qs"], x["rs"]) for x in ra_}
                db = {x["name"]: (x["xs"], x["ys"], x["zs"], x["qs"], x["rs"]) for x in rb_}
                differing = {n for n in set(da) | set(db) if da.get(n) != db.get(n)}
                coords_only = all(n in da and n in db and da[n][3:] == db[n][3:] for n in differing)
                diff = next(((x["line"], y["line"]) for x, y in zip(ra_, rb_)
                             if (x["name"], x["xs"], x["ys"], x["zs"], x["qs"], x["rs"]) !=
                             (y["name"], y["xs"], y["ys"], y["zs"], y["qs"], y["rs"])), ("", ""))
                if differing and differing <= polar_h and coords_only:
                    key = "neutral/neighbouring-polar-hydrogen-reoriented"
                elif rn in ("HIS", "HID", "HIE", "HIP", "HSD", "HSE", "HSP") and \
                        {n for n in differing if n in ("N", "CA", "C", "O") and da.get(n, (0, 0, 0))[:3] != db.get(n, (1, 1, 1))[:3]} == set():
                    key = "neutral/neighbouring-histidine-tautomer-or-flip-responds"     # no backbone atom moved
                elif group and differing <= group and (rn in ("ASH", "GLH") or coords_only):
                    key = "neutral/neighbouring-carboxylic-or-amide-group-responds"
                else:
                    key = "neutral/non-terminal-residue-changed"
                res.violate(key, f"non-terminal {ra_[0]['resn']} {ra_[0]['resi']}: atoms {sorted(differing)} differ "
                            f"({'coordinates only' if coords_only else 'also names/charges'}): {diff[0]!r} -> {diff[1]!r}",
                            **wit)
    ta, tb = sum(x["q"] for x in a), sum(x["q"] for x in b)
    if abs((tb - ta) - shift_expected) > 1e-3 + 6e-5 * len(a):
        res.violate("neutral/total-shift", f"total {ta:+.4f} -> {tb:+.4f}, termini actually neutralised predict "
                    f"{shift_expected:+d}", **wit)
    res.sample = {"kind": "neutral", "options": which, "total_before": round(ta, 4), "total_after": round(tb, 4),
                  "expected_shift": shift_expected}


def setup_worker():
    import logging
    logging.getLogger().setLevel(logging.CRITICAL)


def run_case(spec):
    res = Res()
    {"walk": run_walk, "dropwater": run_dropwater, "neutral": run_neutral}[spec["kind"]](spec, res)
    return res
