"""C06 - titration follows pKa versus pH and stays within force-field support.

The pKa source (main.run_propka) is replaced from the harness by a stub that returns a harness-chosen table in
PROPKA 3.5's row format, so pH and pKa are free variables.  Expected outcome per group = truth table over
(pH < pKa, force field can parameterise the titrated state at that chain position) where 'can parameterise' comes
from the independent force-field model applied to the topology's atom set of the target state.  Second monitor:
monotone total charge over pH sweeps (stub and real PROPKA) and no residue disappearing between pH values.
"""
import logging
import random

from .. import common, pipeline
from ..gen import pdbfmt
from ..gen import structures as S
from ..mon import match
from ..ref import ffmap, states
from ..ref import topology as topo
from ..run import Res

ID = "C06"
LEVEL = "exploration"
EVAL_COUNTER = "groups_checked"
RULE = ("stub cases: tripeptides X-ALA-ALA / ALA-X-ALA / ALA-ALA-X for X in ASP GLU HIS CYS TYR LYS ARG (+ the N+ and C- "
        "groups of every chain) x six force fields, pH uniform in [0,14], pKa in {random, = pH, pH +- 1e-9}; cell = "
        "(group, position, force field, side of the pKa); all 276 reachable cells must be hit. sweep cases: one "
        "structure, fixed pKa table, 9-15 pH values (stub) / 29 pH values (real PROPKA on fragments). Non-trivial: "
        "every cell; distinct = cell x pKa relation class"
        ' Round-2 additions: four-character residue numbers (>= 1000, <= -100); residues sharing name, number and chain that differ only by insertion code with mixed pKa sides; the rows real PROPKA returns are judged group by group like the stubbed tables.'
        ' Round-9 addition: two free cysteines with sulfurs 2.55-3.6 A apart (beyond the bridge limit), each with its own pKa row.'
        ' Round-3/4 additions: PARSE neutral-terminus cells (--neutraln/--neutralc crossed with every group in the terminal residue); unequal carboxyl C-O bonds.')
ASSUMPTIONS = ["the stub reproduces PROPKA 3.5.1's row schema (res_num, ins_code, res_name, chain_id, group_label "
               "'%-3s%4d%2s', pKa; terminal groups labelled 'N+ ' / 'C- ' with the residue's own res_name)",
               "'can parameterise' = the independent force-field model has a row for every atom the topology defines "
               "for the titrated state at that chain position",
               "a warning for a kept default = a record at WARNING or above emitted during the titration stage that "
               "mentions the residue number"]
MIN = {"quick": {"groups_checked": 1500, "sweeps": 20, "propka_sweeps": 2, "propka_rows_judged": 100, "neutral_terminus_cells": 14, "icode_cells": 20, "cells_with_ffout": 80, "api_terminal_cells": 100, "near_cysteine_pairs": 15, "hiddenchain_rows_judged": 20},
       "thorough": {"groups_checked": 40000, "sweeps": 600, "propka_sweeps": 30, "propka_rows_judged": 3000, "neutral_terminus_cells": 800, "icode_cells": 1200, "cells_with_ffout": 6000, "api_terminal_cells": 4000, "near_cysteine_pairs": 600, "hiddenchain_rows_judged": 800}}
CELLS_REQUIRED = 276
from ..mon.pkastub import GROUPS, STUB, TITR, install, label, make_table  # noqa: E402,F401


def cases(tier, seed):
    out = []
    reps = 3 if tier == "quick" else 240
    for rep in range(reps):
        for ff in common.FFS:
            for g in GROUPS:
                for pos in "NIC":
                    for side in ("below", "above"):
                        out.append({"kind": "cell", "ff": ff, "group": g, "pos": pos, "side": side,
                                    "seed": seed * 1009 + rep * 100000 + len(out)})
    # PARSE only: the titratable group sits in a chain-terminal residue whose terminus is neutralised by option
    for rep in range(1 if tier == "quick" else 80):
        for g in GROUPS:
            for pos, flag in (("N", "--neutraln"), ("C", "--neutralc")):
                for side in ("below", "above"):
                    out.append({"kind": "cell", "ff": "PARSE", "group": g, "pos": pos, "side": side, "neutral": flag,
                                "seed": seed * 1019 + rep * 100000 + len(out)})
    # API-level route for the terminal groups: their entries are injected into the dictionary apply_pka_values gets
    for rep in range(1 if tier == "quick" else 40):
        for ff in common.FFS:
            for g in GROUPS + ["ALA"]:
                for pos in "NC":
                    for side in ("below", "above"):
                        out.append({"kind": "cell", "ff": ff, "group": g, "pos": pos, "side": side,
                                    "inject_terminal": True, "seed": seed * 1021 + rep * 100000 + len(out)})
    # residues that share name, number and chain and differ only by insertion code (52, 52A, 52B), pKa sides mixed
    for rep in range(1 if tier == "quick" else 60):
        for ff in common.FFS:
            for g in GROUPS:
                out.append({"kind": "icodecell", "ff": ff, "group": g, "seed": seed * 1013 + rep * 1000 + len(out)})
    # two free cysteines whose sulfurs are close but beyond the 2.5 A bridge limit (2.55-3.6 A: stretched / reduced
    # disulfides): both are titratable groups with their own pKa rows, not a bridge
    for rep in range(1 if tier == "quick" else 40):
        for ff in common.FFS:
            for pa in "NIC":
                out.append({"kind": "nearcys", "ff": ff, "pos": pa, "seed": seed * 1031 + rep * 1000 + len(out)})
    # two peptides under one chain id with no TER between them (the first ends in OXT): the tool splits the chain itself,
    # and the pKa source (real PROPKA here) sees the structure after that split
    for i in range(6 if tier == "quick" else 240):
        out.append({"kind": "hiddenchain", "ff": common.FFS[i % 6], "seed": seed * 1033 + i})
    ns = 24 if tier == "quick" else 2500
    for i in range(ns):
        out.append({"kind": "sweep", "ff": common.FFS[i % 6], "seed": seed * 7001 + i})
    npk = 3 if tier == "quick" else 100
    for i in range(npk):
        out.append({"kind": "propka", "ff": ["PARSE", "AMBER", "CHARMM", "SWANSON", "TYL06", "PEOEPB"][i % 6],
                    "seed": seed * 9001 + i})
    return out


def can_parameterise(model, tr, state_patch, opts_ff, neutral=None):
    """Does the force field (independent model) have a row for every atom of the titrated state at this position?"""
    class O:
        neutraln = neutral == "--neutraln"
        neutralc = neutral == "--neutralc"
        assign_only = False
    titr = (state_patch,)
    names_needed, choose = states.expected_atoms(tr, set(), O, False, titr)
    # the state name: evaluate with the atom set the topology defines
    have = set(names_needed)
    for alts, _n in choose:
        have |= {sorted(alts)[-1]}
    ffn = states.ff_name(tr, have, O, False, titr)
    if ffn is None or ffn not in model:
        return False, ffn
    return all(ffmap.lookup(model, ffn, a) is not None for a in have), ffn


def observed_state(group, residue):
    n = {getattr(a, "_vf_name", a.name) for a in residue.atoms}      # canonical names (C01 records them before --ffout)
    if group == "ASP":
        return "ASH" if ("HD1" in n or "HD2" in n) else "default"
    if group == "GLU":
        return "GLH" if ("HE1" in n or "HE2" in n) else "default"
    if group == "HIS":
        return "HIP" if ("HD1" in n and "HE2" in n) else "default"
    if group == "CYS":
        return "CYM" if "HG" not in n else "default"
    if group == "TYR":
        return "TYM" if "HH" not in n else "default"
    if group == "LYS":
        return "LYN" if not {"HZ1", "HZ2", "HZ3"} <= n else "default"
    if group == "ARG":
        return "AR0" if "HE" not in n else "default"
    if group == "N+":
        amine = len(n & {"H", "H2", "H3"})
        full = 2 if residue.name == "PRO" else 3
        return "NEUTRAL-NTERM" if amine < full else "default"
    if group == "C-":
        return "NEUTRAL-CTERM" if "HO" in n else "default"
    return None


def judge_groups(res, spec, truth, items, groups, r, ph, ff):
    model = ffmap.builtin(ff)
    pairs = match.match_residues(r.bio, items, truth)
    by_k = {}
    for residue, tr in pairs:
        if tr is not None:
            by_k[truth.index(tr)] = residue
    written = {id(a) for a in match.written_atoms(r.bio, r.missed)}
    tlog = [(lv, m) for lv, _n, m in STUB["titration_log"] if lv >= logging.WARNING]
    for g in groups:
        tr = truth[g["k"]]
        residue = by_k.get(g["k"])
        pos = "N" if tr["pos"] == "NC" else tr["pos"]
        gname = g["group"]
        if (gname, spec.get("neutral")) in (("N+", "--neutraln"), ("C-", "--neutralc")):
            continue          # that terminus is neutral by option, whatever its pKa
        target, titr_side = TITR[gname]
        want_titrated = g["side"] == titr_side
        res.count("groups_checked")
        cell = (gname, pos, ff, g["side"])
        res.cell(*cell)
        res.nt(*cell, g["rel"])
        wit = {"group": gname, "residue": f"{tr['resn']} {tr['chain']} {tr['resi']}", "position": pos, "ff": ff, "pH": ph,
               "pKa": g["pka"], "relation": g["rel"], "side": g["side"], "seed": spec["seed"]}
        if residue is None:
            res.violate(f"titration/residue-lost/{gname}@{pos}/{ff}", "residue not found in the result", **wit)
            continue
        supported, ffn = can_parameterise(model, tr, target, ff, spec.get("neutral")) if want_titrated else (True, None)
        expect = target if (want_titrated and supported) else "default"
        obs = observed_state(gname, residue)
        dropped = [a.name for a in residue.atoms if id(a) not in written]
        key = f"{gname}@{pos}/{ff}"
        if gname in ("N+", "C-") and obs == "default" and want_titrated and \
                not any(k.startswith(gname) for k in STUB.get("pkadic_keys", [])):
            # mechanism-specific witness: the terminal group's row was dropped before the titration stage saw it
            res.violate(f"titration/terminal-group-pKa-never-reaches-titration/{gname}", f"pH {ph:.3f} vs pKa "
                        f"{g['pka']:.3f} for {gname} of {tr['resn']} {tr['resi']}: the dictionary handed to the titration "
                        f"stage has keys {STUB.get('pkadic_keys')} - no entry for the terminal group; it keeps its "
                        f"default state ({'parameterised' if supported else 'not parameterised'} by {ff}) and no "
                        f"warning is issued", **wit)
            continue
        if obs != expect:
            if want_titrated and not supported and obs == target:
                res.violate(f"titration/unsupported-state-applied/{key}", f"pH {ph:.3f} vs pKa {g['pka']:.3f}: {target} was "
                            f"applied although {ff} has no complete parameters for {ffn}; atoms left without parameters: "
                            f"{dropped[:6]}", **wit)
            elif want_titrated and supported and obs == "default":
                res.violate(f"titration/supported-state-not-applied/{key}", f"pH {ph:.3f} vs pKa {g['pka']:.3f}: expected "
                            f"{target} ({ffn} is parameterised by {ff}) but the group kept its default state; titration "
                            f"warnings: {[m[:60] for _l, m in tlog][:3]}", **wit)
            else:
                res.violate(f"titration/wrong-state/{key}", f"pH {ph:.3f} vs pKa {g['pka']:.3f}: expected {expect}, "
                            f"observed {obs}", **wit)
            continue
        if want_titrated and not supported:
            # kept default: a warning must have been issued while titrating, naming the residue number
            if not any(str(tr["resi"]) in m for _l, m in tlog):
                res.violate(f"titration/default-kept-without-warning/{key}", f"{target} is not parameterised by {ff} at this "
                            f"position, the default state was kept, but no warning mentions residue {tr['resi']}", **wit)
        if dropped and expect == target:
            res.violate(f"titration/residue-dropped/{key}", f"after titration to {target} atoms {dropped[:6]} of "
                        f"{tr['resn']} {tr['resi']} are missing from the output", **wit)


def build(rng, seq=None, nres=None):
    seq = seq or [rng.choice(GROUPS + ["ALA", "SER", "GLY"]) for _ in range(nres or rng.randint(3, 7))]
    pep = S.peptide(seq, rng, hydrogens=rng.choice(["none", "none", "all"]))
    # numbering includes four-character residue numbers (>= 1000, <= -100), which fill PROPKA's label column
    start = rng.choice([1, 5, 40, 997, 1047, 9990, -3, -104])
    numbers = [start + k for k in range(len(pep))]
    icodes = [""] * len(pep)
    if rng.random() < 0.3:
        # insertion codes (antibody-style 52, 52A, 52B): several residues share one number - and, for equal residue
        # names, everything of PROPKA's label except the insertion code
        k0 = rng.randrange(len(pep) - 1)
        n = rng.randint(1, min(3, len(pep) - 1 - k0))
        for j in range(1, n + 1):
            numbers[k0 + j] = numbers[k0]
            icodes[k0 + j] = "ABC"[j - 1]
        for j in range(k0 + n + 1, len(pep)):
            numbers[j] = numbers[k0] + (j - k0 - n)
    items, truth = S.assemble([{"id": rng.choice(["A", "A", "B", "Z"]), "numbers": numbers, "icodes": icodes,
                                "residues": pep}])
    # unequal C-O bonds in some carboxyl groups (atomic-resolution geometry of protonated acids)
    from ..gen import workload
    out = {"items": items, "truth": truth}
    workload.apply_carboxyl_asymmetry(out, rng, 0.5)
    return pdbfmt.to_text(items), items, truth


def run_cell(spec, res):
    install()
    rng = random.Random(spec["seed"])
    x = spec["group"]
    seq = {"N": [x, "ALA", "ALA"], "I": ["ALA", x, "ALA"], "C": ["ALA", "ALA", x]}[spec["pos"]]
    text, items, truth = build(rng, seq)
    ph = round(rng.uniform(0, 14), rng.choice([1, 2, 3]))
    k = {"N": 0, "I": 1, "C": 2}[spec["pos"]]
    forced = {(x, k): spec["side"]}
    # the terminal groups of this chain take the same side so that every (N+/C-, side) cell is reached as well
    # (in every other cell they take the opposite side: a terminal row must never stand in for the side chain's)
    tside = spec["side"] if (spec["seed"] // 3) % 2 == 0 else {"below": "above", "above": "below"}[spec["side"]]
    forced[("N+", 0)] = tside
    forced[("C-", 2)] = tside
    rows, groups = make_table(truth, rng, ph, forced)
    for g in groups:
        res.cell(g["group"], "N" if truth[g["k"]]["pos"] == "NC" else truth[g["k"]]["pos"], spec["ff"], g["side"])
    STUB["table"] = rows
    STUB["titration_log"] = []
    STUB["inject_terminal"] = bool(spec.get("inject_terminal"))
    if spec.get("inject_terminal"):
        res.count("api_terminal_cells")
    opts = [f"--ff={spec['ff']}", "--titration-state-method=propka", f"--with-ph={ph}"] + \
        ([spec["neutral"]] if spec.get("neutral") else [])
    if spec["seed"] % 4 == 2:
        # an output naming scheme of another force field must not take part in the support decision
        opts.append("--ffout=" + rng.choice([f for f in common.FFS if f != spec["ff"]]))
        res.count("cells_with_ffout")
    if spec.get("neutral"):
        res.count("neutral_terminus_cells")
    try:
        r = pipeline.run(text, opts, workname="c06")
    finally:
        STUB["table"] = None
        STUB["inject_terminal"] = False
    res.count("stub_runs")
    if not r.ok:
        msg = " | ".join(m for lv, _n, m in r.log if lv >= 40)[:200]
        want = x in TITR and spec["side"] == TITR[x][1]
        res.violate(f"titration/run-aborts/{x}@{spec['pos']}/{spec['ff']}/{'titrated' if want else 'default'}-side",
                    f"run with pH {ph} and pKa table {[(g['group'], round(g['pka'], 3)) for g in groups]} fails: "
                    f"{type(r.exc).__name__} {msg}", ff=spec["ff"], group=x, position=spec["pos"], pH=ph, seed=spec["seed"])
        return
    judge_groups(res, spec, truth, items, groups, r, ph, spec["ff"])
    res.sample = {"kind": "cell", "seq": seq, "ff": spec["ff"], "pH": ph,
                  "table": [(g["group"], round(g["pka"], 4), g["side"]) for g in groups]}


def run_icodecell(spec, res):
    install()
    rng = random.Random(spec["seed"])
    x = spec["group"]
    seq = ["ALA", x, x, x, "ALA"]
    pep = S.peptide(seq, rng, hydrogens=rng.choice(["none", "none", "all"]))
    n0 = rng.choice([7, 52, 100, 998])
    items, truth = S.assemble([{"id": "H", "numbers": [n0 - 1, n0, n0, n0, n0 + 1], "icodes": ["", "", "A", "B", ""],
                                "residues": pep}])
    text = pdbfmt.to_text(items)
    ph = round(rng.uniform(1, 13), rng.choice([1, 2]))
    sides = rng.choice([("below", "above", "below"), ("above", "below", "above"), ("below", "below", "above"),
                        ("above", "above", "below"), ("below", "above", "above"), ("above", "below", "below")])
    forced = {(x, 1): sides[0], (x, 2): sides[1], (x, 3): sides[2]}
    rows, groups = make_table(truth, rng, ph, forced)
    STUB["table"] = rows
    STUB["titration_log"] = []
    try:
        r = pipeline.run(text, [f"--ff={spec['ff']}", "--titration-state-method=propka", f"--with-ph={ph}"], workname="c06")
    finally:
        STUB["table"] = None
    res.count("stub_runs")
    res.count("icode_cells")
    if not r.ok:
        res.violate(f"titration/run-aborts/{x}@icodes/{spec['ff']}", f"run with insertion-coded {x} residues fails: "
                    f"{type(r.exc).__name__} {str(r.exc)[:100]}", ff=spec["ff"], group=x, pH=ph, seed=spec["seed"])
        return
    before = len(res.violations)
    judge_groups(res, spec, truth, items, [g for g in groups if g["group"] == x], r, ph, spec["ff"])
    for v in res.violations[before:]:
        # mechanism: the pKa rows / dictionary keys do not carry the insertion code
        v["witness"]["original_mech"] = v["mech"]
        v["witness"]["sides_in_file_order"] = sides
        v["mech"] = "titration/residues-sharing-number-differ-only-by-insertion-code/" + v["mech"].split("/")[1]
    res.nt("icodecell", x, spec["ff"], sides)
    res.sample = {"kind": "icodecell", "group": x, "ff": spec["ff"], "pH": ph, "sides": sides}


def run_nearcys(spec, res):
    """CYS-CYS contact beyond the bridge limit: each sulfur keeps its own titration (seed C06j: a widened bridge limit
    turned such pairs into CYX before the pKa table was looked at)."""
    from .c13 import place, sg_of
    import numpy as np
    install()
    rng = random.Random(spec["seed"])
    ka = {"N": 0, "I": 1, "C": 2}[spec["pos"]]
    pb = rng.choice("NIC")
    kb = {"N": 0, "I": 1, "C": 2}[pb]
    seqs = [["ALA", "ALA", "ALA"], ["ALA", "ALA", "ALA"]]
    seqs[0][ka] = "CYS"
    seqs[1][kb] = "CYS"
    pepA = S.peptide(seqs[0], rng, hydrogens="none")
    pepB = S.peptide(seqs[1], rng, hydrogens="none")
    d = rng.choice([2.55, 2.6, 2.75, 2.9, 2.99, 3.05, 3.3, 3.6])
    place(pepA, ka, pepB, kb, d, rng)
    items, truth = S.assemble([{"id": "A", "start": rng.choice([1, 20, 300]), "residues": pepA},
                               {"id": "B", "start": rng.choice([1, 20, 300]), "residues": pepB}])
    text = pdbfmt.to_text(items)
    dist = float(np.linalg.norm(sg_of(pepA[ka]) - sg_of(pepB[kb])))
    ph = round(rng.uniform(1, 13), rng.choice([1, 2]))
    sides = rng.choice([("below", "above"), ("above", "below"), ("above", "above"), ("below", "below")])
    forced = {("CYS", ka): sides[0], ("CYS", 3 + kb): sides[1]}
    rows, groups = make_table(truth, rng, ph, forced)
    STUB["table"] = rows
    STUB["titration_log"] = []
    try:
        # no debumping / optimisation: the sulfurs stay where the file puts them
        r = pipeline.run(text, [f"--ff={spec['ff']}", "--titration-state-method=propka", f"--with-ph={ph}"] +
                         rng.choice([["--nodebump", "--noopt"], ["--nodebump"], []]), workname="c06")
    finally:
        STUB["table"] = None
    res.count("stub_runs")
    res.count("near_cysteine_pairs")
    if not r.ok:
        res.violate(f"titration/run-aborts/CYS@nearpair/{spec['ff']}", f"run with two free cysteines {dist:.2f} A apart "
                    f"fails: {type(r.exc).__name__} {str(r.exc)[:100]}", ff=spec["ff"], pH=ph, seed=spec["seed"])
        return
    before = len(res.violations)
    judge_groups(res, spec, truth, items, [g for g in groups if g["group"] == "CYS"], r, ph, spec["ff"])
    for v in res.violations[before:]:
        v["witness"]["sg_sg_distance"] = round(dist, 3)
        v["witness"]["original_mech"] = v["mech"]
        v["mech"] = "titration/free-cysteine-near-another-sulfur/" + v["mech"].split("/")[1]
    res.nt("nearcys", spec["ff"], spec["pos"], pb, sides, d)
    res.sample = {"kind": "nearcys", "ff": spec["ff"], "pH": ph, "sg_sg": round(dist, 3), "sides": sides}


def run_hiddenchain(spec, res):
    """Chain ends hidden inside one chain id x the pKa route (seed C06k: the split-off segment's residues and atoms ended
    up under different chain ids, so no pKa row found its residue)."""
    import numpy as np
    install()
    rng = random.Random(spec["seed"])
    pool = ["ASP", "GLU", "HIS", "LYS", "TYR", "CYS", "ARG", "ALA", "SER"]
    pa = S.peptide([rng.choice(pool) for _ in range(rng.randint(4, 6))], rng, hydrogens="none")
    pb = S.peptide([rng.choice(pool) for _ in range(rng.randint(4, 6))], rng, hydrogens="none")
    S.transform(pb, np.eye(3), np.array([0.0, 0.0, 45.0]))
    cid = rng.choice(["A", "A", "X", ""])
    items, truth = S.assemble([{"id": cid, "start": 1, "residues": pa}, {"id": cid, "start": 101, "residues": pb}])
    items = [it for k, it in enumerate(items) if not (it == "TER" and k < len(items) - 2)]   # no TER between the two
    text = pdbfmt.to_text(items)
    judged = 0
    for ph in (rng.choice([0.5, 1.0, 2.0]), rng.choice([12.0, 13.0, 13.5]), round(rng.uniform(3, 11), 1)):
        STUB["table"] = None
        STUB["real_rows"] = None
        STUB["titration_log"] = []
        r = pipeline.run(text, [f"--ff={spec['ff']}", "--titration-state-method=propka", f"--with-ph={ph}"] +
                         rng.choice([[], ["--keep-chain"], ["--noopt"]]), workname="c06")
        if not r.ok:
            res.count("hiddenchain_runs_failed")
            res.note(f"hidden-chain run failed: {type(r.exc).__name__} {str(r.exc)[:80]}")
            continue
        res.count("hiddenchain_runs")
        groups = []
        for row in STUB.get("real_rows") or []:
            lab = row["group_label"]
            if lab.startswith(("N+", "C-")) or row["res_name"] not in GROUPS:
                continue
            ks = [k for k, t in enumerate(truth) if t["resi"] == row["res_num"] and t["resn"] == row["res_name"]]
            if len(ks) != 1 or (row["res_name"] == "CYS" and row["pKa"] >= 99):
                continue
            groups.append({"group": row["res_name"], "k": ks[0], "side": "below" if ph < row["pKa"] else "above",
                           "rel": "propka", "pka": row["pKa"]})
        before = len(res.violations)
        judge_groups(res, spec, truth, items, groups, r, ph, spec["ff"])
        judged += len(groups)
        for v in res.violations[before:]:
            second = v["witness"].get("residue", "").split()[-1:] and int(v["witness"]["residue"].split()[-1]) > 100
            v["witness"]["original_mech"] = v["mech"]
            v["witness"]["segment"] = "split-off" if second else "first"
            v["mech"] = "titration/chain-end-hidden-inside-one-chain-id/" + v["mech"].split("/")[1]
    res.count("hiddenchain_rows_judged", judged)
    res.nt("hiddenchain", spec["ff"], cid)
    res.sample = {"kind": "hiddenchain", "ff": spec["ff"], "chain_id": cid, "rows_judged": judged}


def total_and_residues(r):
    pq = pipeline.parse_pqr(r.pqr_text)
    return sum(a["q"] for a in pq), {(a["resn"][-3:], a["resi"]) for a in pq}, pq


def run_sweep(spec, res, real=False):
    install()
    rng = random.Random(spec["seed"])
    if real:
        from ..gen import workload
        m = workload.materialise({"w": "frag", "seed": spec["seed"], "ff": spec["ff"],
                                  "p": {"minlen": 8, "maxlen": 16, "nwin": 1, "only_complete": True, "water_prob": 0.0}})
        items, truth = m["items"], m["truth"]
        shift = [0, 1000 - truth[len(truth) // 2]["resi"], 0, 8000, -400 - truth[0]["resi"]][spec["seed"] % 5]
        if shift:
            # same atoms under four-character residue numbers (straddling 999/1000, large, <= -100)
            for it in items:
                if isinstance(it, dict):
                    it["resi"] += shift
            for t in truth:
                t["resi"] += shift
        text = pdbfmt.to_text(items)
        phs = [0.5 * k for k in range(0, 29)]
        rows = None
    else:
        text, items, truth = build(rng, nres=rng.randint(4, 8))
        phs = sorted({round(rng.uniform(0, 14), 2) for _ in range(rng.randint(9, 15))})
        rows, groups = make_table(truth, rng, 7.0)
        for row in rows:
            row["pKa"] = row["model_pKa"] = round(rng.uniform(0.5, 13.5), 2)
    prev = None
    series = []
    for ph in phs:
        STUB["table"] = rows
        try:
            r = pipeline.run(text, [f"--ff={spec['ff']}", "--titration-state-method=propka", f"--with-ph={ph}"],
                             workname="c06")
        finally:
            STUB["table"] = None
        if not r.ok:
            series.append((ph, None))
            res.count("sweep_runs_failed")
            continue
        tot, resset, pq = total_and_residues(r)
        series.append((ph, round(tot, 3)))
        res.count("sweep_runs")
        if real:
            # the pKa values PROPKA itself returned in this run, judged group by group like the stubbed tables
            groups = []
            for row in STUB.get("real_rows") or []:
                lab = row["group_label"]
                g = "N+" if lab.startswith("N+") else "C-" if lab.startswith("C-") else row["res_name"]
                ks = [k for k, t in enumerate(truth) if t["kind"] == "aa" and t["resi"] == row["res_num"]
                      and t["chain"].strip() == str(row["chain_id"]).strip() and t["resn"] == row["res_name"]]
                if g not in TITR or len(ks) != 1 or (g in GROUPS and truth[ks[0]]["base"] != g):
                    res.count("propka_rows_not_judged")
                    continue
                tpos = truth[ks[0]]["pos"]
                if (g == "N+" and tpos not in ("N", "NC")) or (g == "C-" and tpos not in ("C", "NC")):
                    # PROPKA sees a terminus at a backbone gap inside the chain; pdb2pqr has no terminal group there
                    res.count("propka_rows_not_judged")
                    continue
                if g == "CYS" and row["pKa"] >= 99:
                    # PROPKA's marker for a disulfide-bonded cysteine (not titratable; no HG either way)
                    res.count("propka_rows_not_judged")
                    continue
                groups.append({"group": g, "k": ks[0], "side": "below" if ph < row["pKa"] else "above", "rel": "propka",
                               "pka": row["pKa"]})
            res.count("propka_rows_judged", len(groups))
            judge_groups(res, spec, truth, items, groups, r, ph, spec["ff"])
        if prev is not None:
            wit = {"ff": spec["ff"], "seed": spec["seed"], "real_propka": real, "pH_pair": (prev[0], ph),
                   "series": series[-6:], "table": None if rows is None else [(x["group_label"], x["pKa"]) for x in rows]}
            if tot > prev[1] + 1e-3:
                res.violate(f"sweep/total-charge-increases/{spec['ff']}", f"total charge rises from {prev[1]:+.3f} at pH "
                            f"{prev[0]} to {tot:+.3f} at pH {ph}", **wit)
            gone = {k[1] for k in prev[2]} - {k[1] for k in resset}
            if gone:
                res.violate(f"sweep/residue-disappears/{spec['ff']}", f"residues {sorted(gone)} are written at pH {prev[0]} "
                            f"but not at pH {ph}", **wit)
        prev = (ph, tot, resset)
    res.count("propka_sweeps" if real else "sweeps")
    res.nt("sweep", spec["ff"], real, spec["seed"])
    res.sample = {"kind": "propka-sweep" if real else "sweep", "ff": spec["ff"], "series": series[:12]}


def finalize(agg, tier):
    cells = {c for c in agg["cells"] if c.count("|") == 3}
    agg["counters"]["cells_hit"] = len(cells)
    need = CELLS_REQUIRED
    if len(cells) < need:
        return [f"only {len(cells)} of {need} (group, position, force field, side) cells were reached"]
    return []


def setup_worker():
    logging.getLogger().setLevel(logging.CRITICAL)
    # warnings are part of the oracle: keep WARNING records flowing to the capture handler
    logging.getLogger().setLevel(logging.WARNING)


def run_case(spec):
    res = Res()
    if spec["kind"] == "cell":
        run_cell(spec, res)
    elif spec["kind"] == "icodecell":
        run_icodecell(spec, res)
    elif spec["kind"] == "nearcys":
        run_nearcys(spec, res)
    elif spec["kind"] == "hiddenchain":
        run_hiddenchain(spec, res)
    elif spec["kind"] == "sweep":
        run_sweep(spec, res)
    else:
        run_sweep(spec, res, real=True)
    return res
