"""C18 - DX -> cube conversion preserves the grid data.

Independent DX writer (the generator knows the truth) + independent cube reader; the real io.read_pqr /
io.read_dx / io.write_cube (and the dx2cube entry point main.dx_to_cube) do the conversion.
"""
import io as _io
import random
import sys
import tempfile
from pathlib import Path

from .. import common
from ..run import Res

ID = "C18"
LEVEL = "exploration"
EVAL_COUNTER = "conversions"
RULE = ("random grids: shapes 1x1x1 .. 97x65x33 incl. value counts = 1..5 (mod 6) and != 0 (mod 3); origins/spacings "
        "over +-1e4 down to 1e-6; values over 1e-300..1e300 with signs and zeros, 1-6 values per DX line; 0..300 PQR "
        "atoms; APBS-style comments and trailer. Non-trivial: value count not divisible by 6 or non-cubic shape or "
        "skewed axes; distinct = (shape, count mod 6, values-per-line, atom count class, entry point)"
        ' Round-3/4 additions: declared DX element type double / float; upper-case and signed exponents, tab / multi-blank separators.')
ASSUMPTIONS = ["the generator's own DX writer follows the APBS layout read_dx documents (keyword-led lines)",
               "'printed precision' = the formats the cube writer uses: %.5E for values, %.6f for geometry"]
MIN = {"quick": {"conversions": 250, "values_compared": 200000, "tail_not_multiple_of_6": 120},
       "thorough": {"conversions": 8000, "values_compared": 5000000, "tail_not_multiple_of_6": 4000}}


def cases(tier, seed):
    n = 20 if tier == "quick" else 4000
    per = 16 if tier == "quick" else 24
    return [{"seed": seed * 10007 + i, "n": per} for i in range(n)]


def _value(rng):
    c = rng.random()
    if c < 0.1:
        return rng.choice([0.0, -0.0, 1.0, -1.0])
    if c < 0.25:
        return rng.choice([-1, 1]) * 10 ** rng.uniform(-300, 300)
    if c < 0.35:
        # values that round across a digit boundary at 6 significant digits
        return rng.choice([-1, 1]) * float(f"{rng.randint(100000, 999999)}5e{rng.randint(-20, 20)}") / 1e6
    return rng.gauss(0, 1) * 10 ** rng.uniform(-6, 6)


def gen_case(rng):
    shape_cls = rng.choice(["tiny", "tail", "apbs", "flat", "big"])
    if shape_cls == "tiny":
        n = (rng.randint(1, 3), rng.randint(1, 3), rng.randint(1, 3))
    elif shape_cls == "tail":
        n = (rng.randint(1, 7), rng.randint(1, 7), rng.randint(1, 7))
    elif shape_cls == "apbs":
        n = tuple(rng.choice([33, 65]) if rng.random() < 0.2 else rng.choice([5, 9, 17]) for _ in range(3))
    elif shape_cls == "flat":
        n = tuple(rng.sample([1, 1, rng.randint(2, 40)], 3))
    else:
        n = (rng.randint(8, 97), rng.randint(4, 65), rng.randint(2, 33))
        if n[0] * n[1] * n[2] > 60000:
            n = (n[0] // 3 + 1, n[1] // 2 + 1, n[2])
    scale = rng.choice([1.0, 1.0, 100.0, 1e4])
    origin = [rng.uniform(-scale, scale) for _ in range(3)]
    if rng.random() < 0.7:
        h = [rng.choice([1e-6, 0.001, 0.25, 0.5, 1.0, 3.75]) * rng.uniform(1, 2) for _ in range(3)]
        deltas = [[h[0], 0, 0], [0, h[1], 0], [0, 0, h[2]]]
    else:
        deltas = [[rng.uniform(-2, 2) for _ in range(3)] for _ in range(3)]
    values = [_value(rng) for _ in range(n[0] * n[1] * n[2])]
    per_line = rng.choice([3, 3, 1, 2, 4, 5, 6])
    fmt = rng.choice(["%e", "%.6e", "%.12e", "%r", "%E", "%+.6e", "%g", "%r", "%d"])
    if fmt == "%d":
        # mask / count maps: integer tokens without a decimal point
        values = [float(rng.choice([0, 0, 1, 1, 2, 12, -3, 100000])) for _ in values]
    elif fmt in ("%g", "%r") and rng.random() < 0.6:
        # round values whose shortest text has no decimal point (1e-05, 3e+16, 7)
        values = [float(rng.choice([-1, 1]) * rng.randint(1, 9) * 10.0 ** rng.choice([-12, -5, 0, 0, 16, 22]))
                  if rng.random() < 0.5 else v for v in values]
    natoms = rng.choice([0, 1, 3, 20, 300])
    return {"n": n, "origin": origin, "deltas": deltas, "values": values, "per_line": per_line, "fmt": fmt,
            "natoms": natoms, "shape_cls": shape_cls, "dtype": rng.choice(["double", "double", "float"])}


def dx_text(c, rng):
    n = c["n"]
    lines = ["# Data from the verification harness", "#", "# POTENTIAL (kT/e)", "#",
             f"object 1 class gridpositions counts {n[0]} {n[1]} {n[2]}",
             "origin " + " ".join("%.6e" % v for v in c["origin"])]
    for d in c["deltas"]:
        lines.append("delta " + " ".join("%.6e" % v for v in d))
    lines.append(f"object 2 class gridconnections counts {n[0]} {n[1]} {n[2]}")
    # the declared element type is double in APBS output and float in maps written from float32 data; the values are
    # text either way
    lines.append(f"object 3 class array type {c.get('dtype', 'double')} rank 0 items {len(c['values'])} data follows")
    toks = [repr(v) if c["fmt"] == "%r" else ("%d" % int(v)) if c["fmt"] == "%d" else (c["fmt"] % v)
            for v in c["values"]]
    for i in range(0, len(toks), c["per_line"]):
        sep = rng.choice([" ", " ", " ", "  ", "\t"])
        lines.append(sep.join(toks[i:i + c["per_line"]]) + (" " if rng.random() < 0.3 else ""))
    lines += ['attribute "dep" string "positions"',
              'object "regular positions regular connections" class field',
              'component "positions" value 1', 'component "connections" value 2', 'component "data" value 3']
    return "\n".join(lines) + "\n", toks


def pqr_text(natoms, rng):
    """PQR input in the layouts pdb2pqr itself writes: whitespace tokens, or fixed columns - where a HETATM serial
    >= 10000 / an ATOM serial >= 100000 touches the record name (HETATM10000), which the PQR reader documents as
    accepted."""
    lines, atoms = [], []
    if rng.random() < 0.5:
        lines.append("REMARK   1 PQR file generated by the harness")
    layout = rng.choice(["tokens", "fixed", "fixed"])
    start = rng.choice([1, 1, 9995, 99995, 12000])
    for i in range(natoms):
        serial = start + i
        x, y, z = (round(rng.uniform(-99, 99), 3) for _ in range(3))
        q = round(rng.uniform(-1, 1), 4)
        r = round(rng.uniform(0.5, 2.5), 4)
        chain = rng.choice(["", "A"])
        rec = "HETATM" if rng.random() < 0.4 else "ATOM"
        if layout == "tokens" or serial > 99999:
            serial = min(serial, 99999) if layout != "tokens" else serial
        if layout == "tokens":
            lines.append(f"{rec} {serial} CA ALA {chain} {i + 1} {x:.3f} {y:.3f} {z:.3f} {q:.4f} {r:.4f}")
        else:
            lines.append("%-6s%5d  CA  ALA %1s%4d    %8.3f%8.3f%8.3f%8.4f%7.4f" % (rec, serial, chain, (i % 9999) + 1, x, y,
                                                                                z, q, r))
        atoms.append((serial, q, x, y, z))
    lines += ["TER", "END"]
    return "\n".join(lines) + "\n", atoms


def read_cube(text):
    """Independent reader of the Gaussian cube layout."""
    L = text.split("\n")
    head = L[2].split()
    natoms = int(head[0])
    origin = [float(v) for v in head[1:4]]
    counts, axes = [], []
    for k in range(3):
        w = L[3 + k].split()
        counts.append(int(w[0]))
        axes.append([float(v) for v in w[1:4]])
    atoms = []
    for k in range(abs(natoms)):
        w = L[6 + k].split()
        atoms.append((int(w[0]), float(w[1]), float(w[2]), float(w[3]), float(w[4])))
    vals_tokens = []
    line_lengths = []
    for ln in L[6 + abs(natoms):]:
        t = ln.split()
        if t:
            line_lengths.append(len(t))
        vals_tokens += t
    return {"natoms": natoms, "origin": origin, "counts": counts, "axes": axes, "atoms": atoms,
            "tokens": vals_tokens, "line_lengths": line_lengths, "comment": L[:2]}


def convert(dxs, pqrs, entry, wdir):
    from pdb2pqr import io as pio
    if entry == "api":
        atoms = pio.read_pqr(_io.StringIO(pqrs))
        dxd = pio.read_dx(_io.StringIO(dxs))
        out = _io.StringIO()
        pio.write_cube(out, dxd, atoms)
        return out.getvalue()
    from pdb2pqr import main as pmain
    (wdir / "in.dx").write_text(dxs)
    (wdir / "in.pqr").write_text(pqrs)
    argv = sys.argv
    sys.argv = ["dx2cube", str(wdir / "in.dx"), str(wdir / "in.pqr"), str(wdir / "out.cube"), "--log-level", "ERROR"]
    try:
        pmain.dx_to_cube()
    finally:
        sys.argv = argv
    return (wdir / "out.cube").read_text()


def run_case(spec):
    res = Res()
    rng = random.Random(spec["seed"])
    wdir = Path(tempfile.mkdtemp(prefix="c18", dir=str(common.workdir("c18"))))
    try:
        for k in range(spec["n"]):
            c = gen_case(rng)
            dxs, toks = dx_text(c, rng)
            pqrs, atoms = pqr_text(c["natoms"], rng)
            entry = "cli" if k % 4 == 0 else "api"
            witness = {"shape": c["n"], "per_line": c["per_line"], "fmt": c["fmt"], "natoms": c["natoms"],
                       "entry": entry, "seed": spec["seed"], "k": k, "dtype": c["dtype"]}
            try:
                cube = convert(dxs, pqrs, entry, wdir)
            except Exception as e:  # noqa: BLE001
                res.violate("convert/exception", f"{type(e).__name__}: {e} for shape {c['n']}", **witness)
                continue
            res.count("conversions")
            nv = len(c["values"])
            if nv % 6:
                res.count("tail_not_multiple_of_6")
            res.cell(c["shape_cls"], nv % 6, c["per_line"], entry)
            if nv % 6 or len(set(c["n"])) > 1:
                res.nt(c["n"], nv % 6, c["per_line"], min(c["natoms"], 2), entry)
            try:
                cb = read_cube(cube)
            except Exception as e:  # noqa: BLE001
                res.violate("cube/unreadable", f"cube not readable by the reference reader: {e}", **witness)
                continue
            if cb["counts"] != [-c["n"][0], -c["n"][1], -c["n"][2]]:
                res.violate("cube/counts", f"counts {cb['counts']} != -{c['n']}", **witness)
            for a, b in zip(cb["origin"], c["origin"]):
                if abs(a - float("%.6e" % b)) > 0.5000001e-6 + 1e-12 * abs(b):
                    res.violate("cube/origin", f"origin {cb['origin']} vs {c['origin']}", **witness)
                    break
            for ax, d in zip(cb["axes"], c["deltas"]):
                if any(abs(a - float("%.6e" % b)) > 0.5000001e-6 + 1e-12 * abs(b) for a, b in zip(ax, d)):
                    res.violate("cube/spacing", f"axes {cb['axes']} vs {c['deltas']}", **witness)
                    break
            if cb["natoms"] != len(atoms) or [a[0] for a in cb["atoms"]] != [a[0] for a in atoms]:
                res.violate("cube/atoms", f"{cb['natoms']} atom lines for {len(atoms)} PQR atoms", **witness)
            else:
                for got, want in zip(cb["atoms"], atoms):
                    if any(abs(g - w) > 0.5000001e-6 for g, w in zip(got[1:], want[1:])):
                        res.violate("cube/atom-fields", f"atom {got} vs {want}", **witness)
                        break
            if len(cb["tokens"]) != nv:
                res.violate("cube/value-count", f"{len(cb['tokens'])} values for {nv} grid points "
                            f"(count mod 6 = {nv % 6})", **witness)
                continue
            bad = None
            for i, (tok, src) in enumerate(zip(cb["tokens"], toks)):
                want = "%.5E" % float(src)
                if float(tok) != float(want):
                    bad = (i, tok, src, want)
                    break
            res.count("values_compared", nv)
            if bad:
                res.violate("cube/value", f"value #{bad[0]} is {bad[1]} for DX {bad[2]} (expected {bad[3]})", **witness)
            if any(n > 6 for n in cb["line_lengths"]):
                res.violate("cube/line-length", "more than six values on a cube line", **witness)
        res.sample = {"shape": c["n"], "values": nv, "per_line": c["per_line"], "natoms": c["natoms"],
                      "first_cube_lines": cube.split("\n")[2:7]}
    finally:
        common.wipe(wdir)
    return res
