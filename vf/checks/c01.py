"""C01 - assigned charges and radii are exactly the selected force field's parameters.

Monitors: (1) table monitor - the real Forcefield map vs the independent DAT/.names interpreter over every
(residue, atom); (2) in-vivo lookup monitor - every Forcefield.get_params call of a run is compared with the
model; (3) end-to-end - every atom of the returned biomolecule / PQR line is compared with the model row under an
independently derived state name; atoms without a row must be absent from the PQR and reported unassigned.
"""
import random

from .. import common, pipeline
from ..gen import ffgen, workload
from ..mon import pkastub, match
from ..ref import ffmap, states
from ..ref import topology as topo
from ..run import Res

ID = "C01"
LEVEL = "exploration"
EVAL_COUNTER = "atoms_checked"
RULE = ("table cases: all (residue, atom) entries of the six built-in force fields and of random user .DAT/.names "
        "pairs; run cases: synthetic peptides / nucleic strands / waters / fragments x 6 built-in force fields and "
        "user pairs x option mixes (neutral termini, assign-only, noopt, nodebump, ffout), protonation variants named "
        "in the input. Non-trivial: residue in a terminal position or a non-default protonation state or nucleic or "
        "under a user force field; distinct = (force field, state-qualified residue name, chain position)"
        ' Round-2 additions: long stretches (30-400 residues) of the local real proteins; pKa route with a stubbed pKa source (titrated states); names-history tables (one process, the same bundled DAT under plain / user names / plain again, each compared with its own model).')
ASSUMPTIONS = ["chain ends and input residue names are the generator's ground truth",
               "the .names rules are the ones documented in docs/source/formats/xml-names.rst as implemented by "
               "vf.ref.ffmap (regex on canonical names with $ appended, $group, cumulative sections, atom aliases)",
               "a (residue, atom) pair listed more than once in a .DAT file has the values of its last line (the table is "
               "read top to bottom; dat.rst is silent, appended override blocks rely on it)"]
MIN = {"quick": {"table_entries": 17000, "lookup_events": 20000, "atoms_checked": 20000, "user_ff_runs": 10,
                 "runs_ok": 150, "names_history_tables": 25, "pka_route_runs": 10, "foreign_hetero_atoms_checked": 8},
       "thorough": {"table_entries": 100000, "lookup_events": 800000, "atoms_checked": 800000, "user_ff_runs": 200,
                    "runs_ok": 5000, "names_history_tables": 1500, "pka_route_runs": 500, "foreign_hetero_atoms_checked": 300}}

EVENTS = []
STATE = {"installed": False}


def install():
    if STATE["installed"]:
        return
    from pdb2pqr import forcefield
    orig = forcefield.Forcefield.get_params

    def get_params(self, resname, atomname):
        out = orig(self, resname, atomname)
        EVENTS.append((id(self), resname, atomname, out))
        return out

    forcefield.Forcefield.get_params = get_params
    # --ffout rewrites atom/residue names after assignment: remember the canonical names the lookup used
    from pdb2pqr.biomolecule import Biomolecule
    orig_ans = Biomolecule.apply_name_scheme

    def apply_name_scheme(self, forcefield_):
        for atom in self.atoms:
            atom._vf_name = atom.name
        return orig_ans(self, forcefield_)

    Biomolecule.apply_name_scheme = apply_name_scheme
    STATE["installed"] = True


def cases(tier, seed):
    out = [{"kind": "table", "ff": ff} for ff in common.FFS]
    # --ligand complexes that also hold hetero groups neither the force field nor the MOL2 file knows (ions, sulfate)
    out += [{"kind": "ligcomplex", "seed": seed * 9011 + i, "ff": ["AMBER", "PARSE", "CHARMM"][i % 3]}
            for i in range(9 if tier == "quick" else 300)]
    nuser = 12 if tier == "quick" else 600
    out += [{"kind": "usertable", "seed": seed * 9001 + i, "base": ["AMBER", "PARSE", "CHARMM", "TYL06"][i % 4]}
            for i in range(nuser)]

    def opts(rng, spec):
        o = [f"--ff={spec['ff']}"]
        c = rng.random()
        if c < 0.08:
            o.append("--assign-only")
        elif c < 0.2:
            o.append("--noopt")
        elif c < 0.3:
            o += ["--nodebump", "--noopt"]
        if spec["ff"] == "PARSE":
            if rng.random() < 0.3:
                o.append("--neutraln")
            if rng.random() < 0.3:
                o.append("--neutralc")
        if rng.random() < 0.15:
            o.append("--ffout=" + rng.choice(common.FFS))
        if "--assign-only" not in o and rng.random() < 0.15:
            # pKa route (stubbed pKa source, random table): titrated states ASH, GLH, HIP, CYM, TYM, LYN, AR0
            o += pkastub.titration_opts(rng)
        return o

    nrun = 180 if tier == "quick" else 30000
    for spec in workload.standard_cases(tier, seed, nrun, nrun, opts_fn=opts, frag_share=0.25,
                                        p={"icode_prob": 0.2, "variant_prob": 0.3, "no_element_prob": 0.3, "nterm_amide_prob": 0.5, "na_prob": 0.2, "waters": [0, 0, 2, 4]}):
        spec["kind"] = "run"
        out.append(spec)
    # long stretches / whole chains of the real proteins
    for spec in workload.long_cases(seed, 7 if tier == "quick" else 420, opts_fn=opts,
                                    long_max=150 if tier == "quick" else 400):
        spec["kind"] = "run"
        out.append(spec)
    for rep in range(1 if tier == "quick" else 40):
        for spec in workload.lattice_cases(seed * 31 + rep, opts_fn=opts):
            spec["kind"] = "run"
            out.append(spec)
    # one process, several naming maps over the same bundled parameter file: plain, user names file, plain again
    nh = 18 if tier == "quick" else 1200
    out += [{"kind": "namestable", "seed": seed * 9901 + i, "base": common.FFS[i % 6]} for i in range(nh)]
    nu = 16 if tier == "quick" else 1500
    for i in range(nu):
        out.append({"kind": "userrun", "w": "synth", "seed": seed * 7333 + i, "ff": "USER",
                    "base": ["AMBER", "PARSE", "CHARMM", "TYL06"][i % 4], "ffseed": seed * 17 + i,
                    "p": {"variant_prob": 0.15, "na_prob": 0.0, "waters": [0, 2]}, "opts": []})
    return out


def compare_tables(res, real_map, model, tag, witness):
    n = 0
    for rname in set(real_map) | set(model):
        ra = model.get(rname, {})
        fa = real_map[rname].atoms if rname in real_map else {}
        for an in set(ra) | set(fa):
            n += 1
            x = ra.get(an)
            y = fa.get(an)
            yt = (y.charge, y.radius, y.resname, y.name) if y is not None else None
            if x != yt:
                res.violate(f"table/{tag}/entry-differs", f"{rname}/{an}: model {x} real {yt}", residue=rname, atom=an,
                            **witness)
                if len(res.violations) > 5:
                    return n
    res.count("table_entries", n)
    return n


def run_table(spec, res):
    from pdb2pqr import forcefield
    from pdb2pqr import io as pio
    definition = pio.get_definitions()
    if set(definition.map) != set(topo.canonical_names()):
        res.violate("table/canonical-names", f"topology names differ: {set(definition.map) ^ set(topo.canonical_names())}")
    if spec["kind"] == "table":
        ff = spec["ff"]
        real = forcefield.Forcefield(ff.lower(), definition, None)
        n = compare_tables(res, real.map, ffmap.builtin(ff), f"builtin-{ff}", {"ff": ff})
        res.nt("table", ff)
        res.sample = {"kind": "table", "ff": ff, "entries": n}
        return
    rng = random.Random(spec["seed"])
    dat, names, notes = ffgen.make(rng, spec["base"])
    wd = common.workdir("c01")
    import tempfile
    import os
    d = tempfile.mkdtemp(dir=str(wd))
    try:
        open(os.path.join(d, "u.dat"), "w").write(dat)
        open(os.path.join(d, "u.names"), "w").write(names)
        try:
            model = ffmap.build(dat, names)
            model_err = None
        except Exception as e:  # noqa: BLE001
            model, model_err = None, e
        try:
            real = forcefield.Forcefield("parse", definition, os.path.join(d, "u.dat"), os.path.join(d, "u.names"))
            real_err = None
        except Exception as e:  # noqa: BLE001
            real, real_err = None, e
        if (model_err is None) != (real_err is None):
            res.violate("table/user/one-side-fails", f"model error {model_err!r} vs real error {real_err!r}", notes=notes)
        elif model is not None:
            n = compare_tables(res, real.map, model, "user", {"notes": notes, "base": spec["base"]})
            res.nt("usertable", spec["base"], tuple(sorted({x[0] for x in notes})))
            res.count("user_tables")
            res.sample = {"kind": "usertable", "base": spec["base"], "notes": notes[:6], "entries": n}
    finally:
        common.wipe(d)


def run_namestable(spec, res):
    """History at table level: Forcefield(X), Forcefield(X, usernames=U1), Forcefield(X, usernames=U2), Forcefield(X)
    built in this order in one process; each must equal the model built from the bundled X.DAT and *its own* names."""
    from pdb2pqr import forcefield
    from pdb2pqr import io as pio
    import os
    import tempfile
    definition = pio.get_definitions()
    rng = random.Random(spec["seed"])
    base = spec["base"]
    dat = (common.REPO / "pdb2pqr" / "dat" / f"{base}.DAT").read_text(encoding="utf-8")
    d = tempfile.mkdtemp(dir=str(common.workdir("c01")))
    try:
        steps = [("plain", None, [])]
        for k in range(rng.randint(1, 2)):
            names, notes = ffgen.make_names_variant(rng, base)
            steps.append((f"user{k}", names, notes))
        steps.append(("plain-again", None, []))
        if rng.random() < 0.5:
            steps = steps[1:]      # start with a user map: nothing was parsed before it in this history
        history = []
        for tag, names, notes in steps:
            path = None
            if names is not None:
                path = os.path.join(d, f"{tag}.names")
                open(path, "w").write(names)
            try:
                model = ffmap.builtin(base) if names is None else ffmap.build(dat, names)
                model_err = None
            except Exception as e:  # noqa: BLE001
                model, model_err = None, e
            try:
                real = forcefield.Forcefield(base.lower(), definition, None, path)
                real_err = None
            except Exception as e:  # noqa: BLE001
                real, real_err = None, e
            wit = {"base": base, "step": tag, "history": list(history), "notes": notes, "seed": spec["seed"]}
            history.append(tag)
            if (model_err is None) != (real_err is None):
                res.violate("table/names-history/one-side-fails", f"model error {model_err!r} vs real error {real_err!r}", **wit)
                continue
            if model is None:
                continue
            before = len(res.violations)
            compare_tables(res, real.map, model, "names-history", wit)
            res.count("names_history_tables")
            if names is not None:
                res.count("user_names_tables")
            res.nt("namestable", base, tag, tuple(sorted({x[0] for x in notes})))
            if len(res.violations) > before:
                break
        res.sample = {"kind": "namestable", "base": base, "steps": [t for t, _n, _x in steps]}
    finally:
        common.wipe(d)


def check_run(res, spec, m, r, model, opts, titr_by_ord=None):
    """End-to-end + in-vivo comparison for one successful run."""
    ffid = {e[0] for e in EVENTS}
    # in-vivo: every get_params event of the *parameter* force field (first Forcefield object used) vs the model
    first = EVENTS[0][0] if EVENTS else None
    for fid, resname, atomname, out in EVENTS:
        if fid != first:
            continue
        res.count("lookup_events")
        row = ffmap.lookup(model, resname, atomname)
        want = (row[0], row[1]) if row else (None, None)
        if out != want:
            res.violate(f"invivo/get_params-differs", f"get_params({resname},{atomname}) -> {out}, model {want}",
                        ff=spec["ff"], opts=spec["opts"])
            break
    pairs = match.match_residues(r.bio, m["items"], m["truth"])
    bonded, ambiguous = match.ss_truth(r.bio)
    missed = {id(a) for a in (r.missed or [])}
    written = match.written_atoms(r.bio, r.missed)
    pq = pipeline.parse_pqr(r.pqr_text, whitespace=False)
    if len(pq) != len(written):
        res.violate("e2e/line-count", f"{len(pq)} PQR atom lines vs {len(written)} atoms not reported unassigned",
                    ff=spec["ff"], opts=spec["opts"])
        return
    line_of = {id(a): ln for a, ln in zip(written, pq)}
    tord = {id(t): k for k, t in enumerate(m["truth"])}
    for residue, tr in pairs:
        if tr is None:
            res.count("residues_unmatched")
            continue
        if id(residue) in ambiguous:
            continue
        names = {getattr(a, "_vf_name", a.name) for a in residue.atoms}
        ss = id(residue) in bonded
        titr = (titr_by_ord or {}).get(tord[id(tr)], ())
        ffn = states.ff_name(tr, names, opts, ss, titr)
        if ffn is None:
            continue
        pos = "I" if tr.get("cyclic") else tr["pos"]
        res.cell(spec["ff"], ffn, pos)
        if titr:
            res.count("titrated_residues_checked")
        if pos != "I" or tr["resn"] in topo.VARIANTS or tr["kind"] == "na" or spec["ff"] == "USER" or ss:
            res.nt(spec["ff"] if spec["ff"] != "USER" else "USER-" + spec.get("base", ""), ffn, pos)
        for a in residue.atoms:
            res.count("atoms_checked")
            aname = getattr(a, "_vf_name", a.name)      # canonical name (before any --ffout renaming)
            row = ffmap.lookup(model, ffn, aname)
            wit = {"ff": spec["ff"], "opts": spec["opts"], "residue": f"{tr['resn']} {tr['chain']} {tr['resi']}",
                   "state_name": ffn, "atom": aname, "w": spec["w"], "seed": spec["seed"]}
            if row is None:
                if id(a) not in missed:
                    res.violate("e2e/no-row-but-written", f"{ffn}/{aname} has no force-field row but is written with "
                                f"q={a.ffcharge} r={a.radius}", **wit)
                continue
            if id(a) in missed:
                res.violate("e2e/row-exists-but-unassigned", f"{ffn}/{a.name} has row {row[:2]} but was reported "
                            f"unassigned (real lookup name {getattr(residue, 'ffname', None)})", **wit)
                continue
            if a.ffcharge != row[0] or a.radius != row[1]:
                res.violate("e2e/wrong-parameters", f"{ffn}/{a.name}: assigned q={a.ffcharge} r={a.radius}, force field "
                            f"row says q={row[0]} r={row[1]} (real lookup name {getattr(residue, 'ffname', None)})",
                            **wit)
                continue
            ln = line_of[id(a)]
            if abs(ln["q"] - row[0]) > 0.00005001 or abs(ln["r"] - row[1]) > 0.00005001:
                res.violate("e2e/pqr-line-differs", f"{ffn}/{a.name}: PQR line has q={ln['qs']} r={ln['rs']}, row "
                            f"{row[:2]}", **wit)


def run_run(spec, res):
    install()
    m = workload.materialise(spec)
    extra, model = None, None
    opts_list = list(spec["opts"])
    if spec["kind"] == "userrun":
        rng = random.Random(spec["ffseed"])
        dat, names, notes = ffgen.make(rng, spec["base"])
        extra = {"u.dat": dat, "u.names": names}
        opts_list = ["--userff={dir}/u.dat", "--usernames={dir}/u.names"]
        try:
            model = ffmap.build(dat, names)
        except Exception as e:  # noqa: BLE001
            res.note(f"user pair rejected by the model: {e}")
            return
    else:
        model = ffmap.builtin(spec["ff"])
    if "--assign-only" in opts_list:
        # assign-only needs a complete, correctly named structure: take the PDB written by a full run as input
        pre = pipeline.run(m["text"], [o for o in opts_list if o != "--assign-only" and not o.startswith("--ffout")]
                           + ["--pdb-output={dir}/full.pdb"], workname="c01", keep=True)
        try:
            if not pre.ok:
                res.count("runs_failed_before_assign_only")
                return
            text = (pre.dir / "full.pdb").read_text()
        finally:
            pre.cleanup()
        from ..gen import pdbfmt
        m = dict(m, text=text, items=[dict(a, rec=a["rec"]) for a in pdbfmt.read_first_model(text)])
    del EVENTS[:]
    with pkastub.for_opts(opts_list, m["truth"], spec["seed"]) as titr:
        r = pipeline.run(m["text"], opts_list, extra_files=extra, workname="c01")
    res.count("runs")
    if titr is not None:
        res.count("pka_route_runs")
    if not r.ok:
        res.count("runs_failed")
        msg = " | ".join(mm for lv, _n, mm in r.log if lv >= 40)[:160]
        res.note(f"{spec['ff']} {spec['opts']} failed: {type(r.exc).__name__} {msg}")
        return
    res.count("runs_ok")
    if spec["kind"] == "userrun":
        res.count("user_ff_runs")
    opts = states.Opts(opts_list)
    if spec["kind"] == "userrun":
        opts.ff = "USER"
    check_run(res, spec, m, r, model, opts, pkastub.observed_titration(r, m) if titr is not None else None)
    res.sample = {"kind": spec["kind"], "ff": spec["ff"], "opts": opts_list, "w": spec["w"],
                  "residues": [t["resn"] for t in m["truth"]][:12], "lookup_events": len(EVENTS)}


def setup_worker():
    import logging
    logging.getLogger().setLevel(logging.CRITICAL)


def run_ligcomplex(spec, res):
    """Second clause under --ligand: a hetero atom with no force-field row and no MOL2 entry is left out of the PQR and
    reported, never written with defaulted parameters (seed C01k wrote them with 0.0000 0.0000)."""
    import random as _random
    import numpy as np
    from ..gen import pdbfmt
    from .c09 import build_complex
    rng = _random.Random(spec["seed"])
    m = build_complex(rng)
    if m is None:
        res.note("no parameterisable ligand drawn")
        return
    model = ffmap.builtin(spec["ff"])
    lines = [ln for ln in m["text"].split("\n") if ln and ln.strip() != "END"]
    first = next(ln for ln in lines if ln.startswith("ATOM"))
    c0 = np.array([float(first[30:38]), float(first[38:46]), float(first[46:54])])
    extra = []
    serial = 9000
    nres = 0
    for resn, names in rng.sample([("CA", ["CA"]), ("ZN", ["ZN"]), ("SO4", ["S", "O1", "O2", "O3", "O4"]), ("MG", ["MG"]),
                                   ("PO4", ["P", "O1", "O2", "O3", "O4"])], rng.randint(1, 3)):
        if resn in model:
            continue
        centre = c0 + np.array([rng.uniform(-6, 6), rng.uniform(30, 40), rng.uniform(-6, 6)])
        for k, an in enumerate(names):
            xyz = centre + (np.zeros(3) if k == 0 else 1.5 * np.array([[1, 1, 1], [-1, -1, 1], [-1, 1, -1], [1, -1, -1]][k - 1]) / 3 ** 0.5)
            serial += 1
            extra.append(pdbfmt.fmt_atom(pdbfmt.atom(an, resn, "I", 700 + nres, xyz, rec="HETATM", serial=serial)))
        nres += 1
    if not extra:
        return
    text = "\n".join(lines + extra + ["END"]) + "\n"
    foreign = {ln[17:20].strip() for ln in extra}
    opts = [f"--ff={spec['ff']}", "--ligand={dir}/lig.mol2"] + rng.choice([[], ["--noopt"], ["--keep-chain"], ["--whitespace"]])
    r = pipeline.run(text, opts, extra_files={"lig.mol2": m["lig_text"]}, workname="c01")
    res.count("ligand_complex_runs")
    if not r.ok:
        res.note(f"ligand complex run failed: {type(r.exc).__name__}")
        return
    res.count("runs_ok")
    pq = pipeline.parse_pqr(r.pqr_text, whitespace="--whitespace" in opts)
    res.nt("ligcomplex", spec["ff"], tuple(sorted(foreign)))
    res.cell("ligcomplex", spec["ff"])
    missed_names = {(getattr(a, "res_name", None) or a.residue.name, a.name) for a in (r.missed or [])}
    for a in pq:
        if a["resn"] in foreign:
            res.violate("e2e/no-row-but-written/hetero-beside-ligand", f"{a['resn']}/{a['name']} has neither a force-field "
                        f"row nor a MOL2 entry but is written: {a['line']!r}", ff=spec["ff"], opts=opts, seed=spec["seed"])
    for ln in extra:
        key = (ln[17:20].strip(), ln[12:16].strip())
        res.count("foreign_hetero_atoms_checked")
        if key not in missed_names:
            res.violate("e2e/unparameterised-hetero-not-reported", f"{key} has no parameters and is not in the unassigned "
                        f"list", ff=spec["ff"], opts=opts, seed=spec["seed"])
    res.sample = {"kind": "ligcomplex", "ff": spec["ff"], "foreign": sorted(foreign)}


def run_case(spec):
    res = Res()
    if spec["kind"] == "ligcomplex":
        run_ligcomplex(spec, res)
        return res
    if spec["kind"] == "namestable":
        run_namestable(spec, res)
    elif spec["kind"] in ("table", "usertable"):
        run_table(spec, res)
    else:
        run_run(spec, res)
    return res
