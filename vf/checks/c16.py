"""C16 - ligand charges conserve formal charge and stay on the ligand.

Molecule level: the real Mol2Molecule.read/assign_parameters on local MOL2 files, their mutants and random
molecules; oracles: conservation, renaming invariance, permutation invariance up to symmetry classes (colour
refinement), rigid-motion invariance, radius table.  Complex level: whole runs with --ligand on protein + ligand +
other hetero groups + waters; the ligand's parameters must land on the ligand's atoms only, each written once.
"""
import io as _io
import random
from collections import Counter

import numpy as np

from .. import pipeline
from ..gen import mol2gen, pdbfmt
from ..gen import structures as S
from ..run import Res

ID = "C16"
LEVEL = "exploration"
EVAL_COUNTER = "molecules"
RULE = ("molecules: the local MOL2 files (tests/data, examples/ligands) and random molecules built from valence-legal "
        "groups (alkyl, amine, ammonium, ether/hydroxyl, thioether, halogens, carboxylate, carbonyl, nitrile, amide, "
        "phenyl, cyclohexyl, phosphate), each run as-is and after bijective renaming, atom/bond permutation and rigid "
        "motion. Non-trivial: molecule with a charged group or a ring or >1 symmetry class of size >1; distinct = "
        "(source, multiset of Sybyl types, bond count). complexes: synthetic peptide + ligand HETATM residue + "
        "optional second hetero group (colliding / non-colliding atom names) + ions + waters under --ligand"
        ' Round-3/4 additions: ligand atoms in two alternate locations; salts (unbonded halide atoms) in random molecules.')
ASSUMPTIONS = ["formal charges are the ones Mol2Atom.formal_charge reports (the property is relative to them)",
               "symmetry classes are approximated from above by colour refinement (necessary condition, never stricter)",
               "radius tables: ZAP9 by Sybyl type then element, then Bondi (values copied from the cited papers into "
               "the harness)"]
MIN = {"quick": {"molecules": 300, "conservation_checks": 300, "rename_pairs": 250, "permutation_pairs": 250,
                 "complex_runs": 25, "complex_pka_route_runs": 3, "complex_ligand_serials_repeat": 5, "complex_assign_only_refeeds": 3},
       "thorough": {"molecules": 12000, "conservation_checks": 12000, "rename_pairs": 10000,
                    "permutation_pairs": 10000, "complex_runs": 900, "complex_pka_route_runs": 100, "complex_ligand_serials_repeat": 200, "complex_assign_only_refeeds": 100}}

ZAP9 = {"C": 1.87, "H": 1.10, "O.co2": 1.76, "N": 1.40, "S": 2.15, "F": 2.40, "Cl": 1.82, "I": 2.65}
BONDI = {"H": 1.20, "He": 1.40, "C": 1.70, "N": 1.55, "O": 1.52, "F": 1.47, "Ne": 1.54, "Si": 2.10, "P": 1.80,
         "S": 1.80, "Cl": 1.75, "Ar": 1.88, "As": 1.85, "Se": 1.90, "Br": 1.85, "Kr": 2.02, "Te": 2.06, "I": 1.98,
         "Xe": 2.16}


def ref_radius(sybyl):
    parts = sybyl.split(".")
    el = parts[0].capitalize()
    typ = el + ("." + parts[1].lower() if len(parts) > 1 else "")
    for table in (ZAP9, BONDI):
        for key in (typ, el):
            if key in table:
                return table[key]
    return None


def cases(tier, seed):
    n, per, nc = (20, 20, 36) if tier == "quick" else (600, 32, 1500)
    out = [{"kind": "mol", "seed": seed * 5003 + i, "n": per} for i in range(n)]
    out += [{"kind": "complex", "seed": seed * 6007 + i, "variant": ["plain", "collide", "nocollide", "waterH",
                                                                     "ions", "waterclash", "ligaltloc", "ffresname"][i % 8]}
            for i in range(nc)]
    return out


def load(text):
    from pdb2pqr.ligand.mol2 import Mol2Molecule
    m = Mol2Molecule()
    m.read(_io.StringIO(text))
    return m


def params(text):
    m = load(text)
    atoms = list(m.atoms.values())
    formal = [a.formal_charge for a in atoms]
    m.assign_parameters()
    return {"names": [a.name for a in atoms], "formal": formal, "q": [a.charge for a in atoms],
            "r": [a.radius for a in atoms], "types": [a.type for a in atoms]}


def run_mol(spec, res):
    rng = random.Random(spec["seed"])
    for k in range(spec["n"]):
        if rng.random() < 0.35:
            path = rng.choice(mol2gen.LOCAL)
            mol = mol2gen.parse(path.read_text())
            src = path.name
        else:
            mol = mol2gen.random_molecule(rng)
            src = "random"
        text = mol2gen.write(mol)
        wit = {"source": src, "seed": spec["seed"], "k": k, "mol2": text if len(text) < 6000 else text[:6000]}
        try:
            base = params(text)
        except Exception as e:  # noqa: BLE001
            # a molecule the code refuses (loudly) has no charges to judge: counted, not a violation
            res.count("molecules_rejected")
            res.note(f"{src}: {type(e).__name__}: {e}")
            continue
        n = len(base["q"])
        res.count("molecules")
        classes = mol2gen.wl_classes(mol)
        charged = any(abs(f) > 1e-12 for f in base["formal"])
        sym = any(c > 1 for c in Counter(classes).values())
        has_ring = len(mol["bonds"]) >= n
        if charged or has_ring or sym:
            res.nt(src, tuple(sorted(Counter(base["types"]).items())), len(mol["bonds"]))
        res.cell("types", *sorted(set(base["types"])))
        # 1 conservation
        res.count("conservation_checks")
        tot_q, tot_f = sum(base["q"]), sum(base["formal"])
        if abs(tot_q - tot_f) > 1e-9 * max(n, 1):
            res.violate("mol/not-conserved", f"sum of charges {tot_q:.9f} != sum of formal charges {tot_f} ({src})",
                        **wit)
        # 4 radii
        for nm, t, r in zip(base["names"], base["types"], base["r"]):
            want = ref_radius(t)
            if r is None or r <= 0 or want is None or abs(r - want) > 1e-12:
                res.violate("mol/radius", f"{nm} type {t}: radius {r}, table says {want}", **wit)
                break
        res.count("radius_checks", n)
        # 2 renaming
        ren, mp = mol2gen.rename(mol, rng, rng.choice(["random", "reverse", "element"]))
        try:
            p2 = params(mol2gen.write(ren))
            res.count("rename_pairs")
            d = max((abs(a - b) for a, b in zip(base["q"], p2["q"])), default=0.0)
            if d > 1e-9 or len(p2["q"]) != n:
                i = int(np.argmax([abs(a - b) for a, b in zip(base["q"], p2["q"])]))
                res.violate("mol/name-dependent", f"charge of atom #{i + 1} ({base['names'][i]} -> {p2['names'][i]}) "
                            f"changes by {d:.6f} under renaming ({src})", renamed=mol2gen.write(ren)[:4000], **wit)
        except Exception as e:  # noqa: BLE001
            res.violate("mol/name-dependent-exception", f"renamed molecule raised {type(e).__name__}: {e}", **wit)
        # 3 permutation
        per, perm = mol2gen.permute(mol, rng)
        try:
            p3 = params(mol2gen.write(per))
            res.count("permutation_pairs")
            byclass_a, byclass_b = {}, {}
            for i, c in enumerate(classes):
                byclass_a.setdefault(c, []).append(base["q"][i])
            for knew, old in enumerate(perm):
                byclass_b.setdefault(classes[old], []).append(p3["q"][knew])
            for c in byclass_a:
                a, b = sorted(byclass_a[c]), sorted(byclass_b.get(c, []))
                if len(a) != len(b) or any(abs(x - y) > 1e-9 for x, y in zip(a, b)):
                    res.violate("mol/order-dependent", f"symmetry class of {len(a)} atoms: charges {a[:4]} become "
                                f"{b[:4]} after permuting atoms/bonds ({src})", permuted=mol2gen.write(per)[:4000],
                                **wit)
                    break
        except Exception as e:  # noqa: BLE001
            res.violate("mol/order-dependent-exception", f"permuted molecule raised {type(e).__name__}: {e}", **wit)
        # rigid motion
        if k % 3 == 0:
            p4 = params(mol2gen.write(mol2gen.move(mol, rng)))
            res.count("motion_pairs")
            if max((abs(a - b) for a, b in zip(base["q"], p4["q"])), default=0.0) > 1e-9:
                res.violate("mol/geometry-dependent", "charges change under a rigid motion", **wit)
    res.sample = {"kind": "mol", "source": src, "atoms": n, "sum_q": round(tot_q, 6), "sum_formal": tot_f,
                  "types": sorted(set(base["types"]))}


def het_residue(mol, resn, center, names=None):
    pts = np.array([a["xyz"] for a in mol["atoms"]])
    shift = np.array(center) - pts.mean(0)
    return {"resn": resn, "kind": "het",
            "atoms": [((names or {}).get(a["name"], a["name"]), np.array(a["xyz"]) + shift) for a in mol["atoms"]]}


def run_complex(spec, res):
    rng = random.Random(spec["seed"])
    variant = spec["variant"]
    if rng.random() < 0.5:
        path = rng.choice([p for p in mol2gen.LOCAL if len(mol2gen.parse(p.read_text())["atoms"]) < 60])
        mol = mol2gen.parse(path.read_text())
        src = path.name
    else:
        mol = mol2gen.random_molecule(rng, 2, 6)
        src = "random"
    for a in mol["atoms"]:
        a["resn"] = "LIG"
    # ligand atom names never coincide with water atom names, except in the dedicated variant
    taken = {a["name"] for a in mol["atoms"]}
    for a in mol["atoms"]:
        if a["name"] in ("O", "H1", "H2"):
            new = "L" + a["name"]
            while new in taken:
                new = new[:3] + rng.choice("ABCDEFGH")
            taken.add(new)
            a["name"] = new
    if variant == "waterclash":
        hs = [a for a in mol["atoms"] if a["type"] == "H"]
        os_ = [a for a in mol["atoms"] if a["type"].startswith("O")]
        if hs:
            hs[0]["name"] = "H1"
        if len(hs) > 1 and rng.random() < 0.5:
            hs[1]["name"] = "H2"
        if os_ and rng.random() < 0.5:
            os_[0]["name"] = "O"
    lig_text = mol2gen.write(mol)
    try:
        lp = params(lig_text)
    except Exception as e:  # noqa: BLE001
        res.note(f"ligand {src} not parameterisable: {e}")
        return
    pep = S.peptide(S.random_sequence(rng, rng.randint(3, 6), pool=["ALA", "GLY", "SER", "LEU", "LYS", "ASP", "THR",
                                                                   "VAL", "ASN"]), rng)
    c0 = S.centroid(pep)
    entries = [{"id": "A", "start": 1, "residues": pep}]
    lig_resn = "LIG"
    if variant == "ffresname":
        # the ligand residue carries a name the selected force field has rows for (CHARMM: ADP, ATP, NAD, HEME ...):
        # atoms matched by name there must still be written once, with the ligand's parameters
        lig_resn = rng.choice(["ADP", "ATP", "NAD", "THF", "SEP"])
    het = [het_residue(mol, lig_resn, c0 + np.array([25.0, 0, 0]))]
    collide_names = set()
    if variant in ("collide", "nocollide"):
        other = mol2gen.random_molecule(rng, 1, 4)
        if variant == "collide":
            # the second hetero group re-uses some ligand atom names
            ln = [a["name"] for a in mol["atoms"]]
            mp = {a["name"]: ln[i % len(ln)] for i, a in enumerate(other["atoms"][:3])}
            collide_names = set(mp.values())
        else:
            mp = {a["name"]: "X" + a["name"][:3] for a in other["atoms"]}
            mp = {k: v for k, v in mp.items()}
        seen = set()
        atoms = []
        for a in other["atoms"]:
            n = mp.get(a["name"], "Y" + a["name"][:3])
            if n in seen:
                continue
            seen.add(n)
            atoms.append((n, a))
        het.append({"resn": "OTH", "kind": "het",
                    "atoms": [(n, np.array(a["xyz"]) + c0 + np.array([0, 25.0, 0])) for n, a in atoms]})
    if variant == "ions":
        het.append({"resn": "NA", "kind": "het", "atoms": [("NA", c0 + np.array([0, 0, 25.0]))]})
        het.append({"resn": "CL", "kind": "het", "atoms": [("CL", c0 + np.array([0, 0, -25.0]))]})
    entries.append({"id": rng.choice(["A", "L", "B"]), "start": 301, "residues": het})
    nw = rng.randint(1, 3)
    wat = [S.water(c0 + np.array([0, -12.0, 0]), rng, spread=3.0, with_h=(2 if variant in ("waterH", "waterclash") else 0))
           for _ in range(nw)]
    entries.append({"id": "W", "start": 401, "residues": wat})
    items, truth = S.assemble(entries)
    if spec["seed"] % 3 == 1:
        # a ligand block pasted in with its own numbering (restarting at 1, or all zero): serial numbers are labels
        mode = rng.choice(["restart", "zero"])
        k = 0
        for it in items:
            if isinstance(it, dict) and it["resn"] == lig_resn:
                k += 1
                it["serial"] = k if mode == "restart" else 0
        res.count("complex_ligand_serials_repeat")
    if variant == "ligaltloc":
        # the ligand (and a few protein atoms) carry alternate locations A/B: the first one counts, once
        out_items = []
        for it in items:
            if isinstance(it, dict) and (it["resn"] == lig_resn or (it["name"] in ("CB", "OG", "CG") and rng.random() < 0.3)):
                blocked = False
                out_items.append(dict(it, alt="A", occ=0.6))
                out_items.append(dict(it, alt="B", occ=0.4, x=it["x"] + 0.4, y=it["y"] - 0.3, z=it["z"] + 0.2))
            else:
                out_items.append(it)
        if rng.random() < 0.5:
            # blocked layout: all A records of the ligand, then all B records
            lig = [it for it in out_items if isinstance(it, dict) and it["resn"] == lig_resn]
            first = out_items.index(lig[0])
            rest = [it for it in out_items if not (isinstance(it, dict) and it["resn"] == lig_resn)]
            k = rest.index(out_items[first - 1]) + 1 if first > 0 else 0
            out_items = rest[:k] + [it for it in lig if it["alt"] == "A"] + [it for it in lig if it["alt"] == "B"] + rest[k:]
        items = out_items
        pdbfmt.renumber(items)
    text = pdbfmt.to_text(items)
    ff = rng.choice(["AMBER", "PARSE", "CHARMM"]) if variant != "ffresname" else rng.choice(["CHARMM", "CHARMM", "AMBER"])
    opts = [f"--ff={ff}", "--ligand={dir}/lig.mol2"]
    from ..mon import pkastub
    if variant in ("plain", "ions", "nocollide", "waterH") and rng.random() < 0.4:
        # the pKa route strips and rebuilds hydrogens: the ligand's own hydrogens must survive it
        opts += pkastub.titration_opts(rng)
        res.count("complex_pka_route_runs")
    # a share of the plain complexes is also re-fed: the run's own --pdb-output (complete, protonated) goes through
    # --assign-only --ligand, where the ligand must get the very same parameters
    refeed = variant in ("plain", "ions", "nocollide", "waterH") and "--titration-state-method=propka" not in opts \
        and rng.random() < 0.6
    full = None
    with pkastub.for_opts(opts, truth, spec["seed"]):
        r = pipeline.run(text, opts + (["--pdb-output={dir}/full.pdb"] if refeed else []),
                         extra_files={"lig.mol2": lig_text}, workname="c16", keep=refeed)
    if refeed:
        try:
            if r.ok and (r.dir / "full.pdb").exists():
                full = (r.dir / "full.pdb").read_text()
        finally:
            r.cleanup()
    lig_names = set(lp["names"])
    water_collision = bool(lig_names & {"O", "H1", "H2"})
    feature = "ligand-residue-name-known-to-force-field" if variant == "ffresname" else \
        "other-hetero-shares-atom-name" if collide_names else \
        "water-atom-name-equals-ligand-atom-name" if water_collision else "no-name-collision"
    wit = {"variant": variant, "ligand": src, "ff": ff, "seed": spec["seed"], "feature": feature,
           "ligand_atom_names": sorted(lig_names)[:40]}
    res.count("complex_runs")
    res.cell("complex", variant, feature)
    res.nt("complex", variant, src, len(lp["names"]))
    if not r.ok:
        msg = " | ".join(m for lv, _n, m in r.log if lv >= 40)[:300]
        clause = "abort-non-integral-charge" if "deviates by" in msg else "run-failed"
        res.violate(f"complex/{clause}/{feature}", f"--ligand run failed: {type(r.exc).__name__} {msg}", **wit)
        return
    pq = pipeline.parse_pqr(r.pqr_text)
    lig_lines = [a for a in pq if a["resn"] == lig_resn]
    want = Counter(lp["names"])
    got = Counter(a["name"] for a in lig_lines)
    if got != want:
        res.violate(f"complex/ligand-atoms-written/{feature}", f"ligand atoms written {dict(got - want)} extra, "
                    f"{dict(want - got)} missing", **wit)
    qr = {n: (q, rr) for n, q, rr in zip(lp["names"], lp["q"], lp["r"])}
    for a in lig_lines:
        if a["name"] in qr and (abs(a["q"] - qr[a["name"]][0]) > 0.00006 or abs(a["r"] - qr[a["name"]][1]) > 0.00006):
            res.violate(f"complex/ligand-params/{feature}", f"ligand atom {a['name']} written with q={a['q']} "
                        f"r={a['r']}, ligand parameters are {qr[a['name']]}", **wit)
            break
    if full is not None:
        r2 = pipeline.run(full, [f"--ff={ff}", "--assign-only", "--ligand={dir}/lig.mol2"], extra_files={"lig.mol2": lig_text},
                          workname="c16")
        res.count("complex_assign_only_refeeds")
        if not r2.ok:
            msg = " | ".join(m for lv, _n, m in r2.log if lv >= 40)[:300]
            res.violate(f"complex/assign-only-refeed-fails/{feature}", f"--assign-only --ligand on the run's own "
                        f"--pdb-output fails: {type(r2.exc).__name__} {msg}", **wit)
        else:
            lig2 = [a for a in pipeline.parse_pqr(r2.pqr_text) if a["resn"] == lig_resn]
            got2 = Counter(a["name"] for a in lig2)
            if got2 != want:
                res.violate(f"complex/assign-only/ligand-atoms-written/{feature}", f"--assign-only: ligand atoms written "
                            f"{dict(got2 - want)} extra, {dict(want - got2)} missing", **wit)
            for a in lig2:
                if a["name"] in qr and (abs(a["q"] - qr[a["name"]][0]) > 0.00006 or abs(a["r"] - qr[a["name"]][1]) > 0.00006):
                    res.violate(f"complex/assign-only/ligand-params/{feature}", f"--assign-only: ligand atom {a['name']} "
                                f"written with q={a['q']} r={a['r']}, ligand parameters are {qr[a['name']]}", **wit)
                    break
    # differential: the same complex without --ligand - every non-ligand atom must be untouched by the ligand
    with pkastub.for_opts(opts, truth, spec["seed"]):
        r0 = pipeline.run(text, [o for o in opts if not o.startswith("--ligand")], workname="c16")
    if r0.ok:
        res.count("complex_differentials")
        base = {(a["resn"], a["resi"], a["name"], a["chain"]): (a["qs"], a["rs"]) for a in pipeline.parse_pqr(r0.pqr_text)}
        for a in pq:
            if a["resn"] == lig_resn:
                continue
            key = (a["resn"], a["resi"], a["name"], a["chain"])
            if key not in base:
                res.violate(f"complex/non-ligand-atom-parameterised-by-ligand/{feature}",
                            f"{key} is written only when --ligand is given (q={a['q']} r={a['r']})", **wit)
                break
            if base[key] != (a["qs"], a["rs"]):
                res.violate(f"complex/non-ligand-atom-changed-by-ligand/{feature}",
                            f"{key}: {base[key]} without ligand, ({a['qs']}, {a['rs']}) with", **wit)
                break
    res.sample = {"kind": "complex", "variant": variant, "ligand": src, "ligand_atoms": len(lp["names"]),
                  "written_ligand_lines": len(lig_lines)}


def setup_worker():
    import logging
    logging.getLogger().setLevel(logging.CRITICAL)


def run_case(spec):
    res = Res()
    if spec["kind"] == "mol":
        run_mol(spec, res)
    else:
        run_complex(spec, res)
    return res
