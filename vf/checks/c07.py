"""C07 - every coordinate record of the first model of a PDB input is ingested.

The atoms held by the Biomolecule right after construction (captured by wrapping main.setup_molecule inside a real
main_driver --clean run; fallback: the --clean PQR itself) are compared with an independent fixed-column read of
the same bytes (first model, first alt-loc per identity).
"""
import random
from collections import Counter

from .. import pipeline
from ..gen import pdbfmt, pdbtext, workload
from ..ref import topology as topo
from ..run import Res

ID = "C07"
LEVEL = "exploration"
EVAL_COUNTER = "files"
RULE = ("generated structures (synthetic chains, nucleic strands, waters, fragments of the local PDB files) passed "
        "through 1-3 random text mutations out of: blank / whitespace-only lines, junk and foreign records, CRLF, "
        "truncation at 54/60/66/78 columns, TER variants, END missing/repeated/mid-file, 2-4 models, atoms before "
        "MODEL 1, alt-locs interleaved or blocked, insertion codes, negative numbers, blank / repeated chain ids, "
        "waters as ATOM/HETATM HOH/WAT, no final newline; with and without --drop-water. Non-trivial: at least one "
        "mutation applied; distinct = (sorted mutation set, drop-water, source kind)"
        ' Round-2 additions: serial numbers of large structures (HETATM10000), v3 RNA names A/C/G/U, alternate atom names combined with alternate locations.')
ASSUMPTIONS = ["the independent reader uses only the wwPDB fixed columns; records are well-formed by construction",
               "residues are contiguous in the file (the property speaks of one atom per identity, not of merging "
               "split residues)"]
MIN = {"quick": {"files": 900, "atoms_compared": 40000, "setup_molecule_hook": 800},
       "thorough": {"files": 25000, "atoms_compared": 1000000, "setup_molecule_hook": 20000}}
SHARDS_PER_JOB = 2
CAP = {"atoms": None}
MUTS = [m for m in pdbtext.MUTATIONS if m != "endmdl_only"]


def cases(tier, seed):
    n, per = (40, 25) if tier == "quick" else (2000, 50)
    return [{"seed": seed * 8009 + i, "n": per} for i in range(n)]


def install():
    import pdb2pqr.main as pmain
    if getattr(pmain, "_vf_c07", False):
        return
    orig = pmain.setup_molecule

    def setup_molecule(pdblist, definition, ligand_path):
        out = orig(pdblist, definition, ligand_path)
        bio = out[0]
        CAP["atoms"] = [(a.type, a.name, a.res_name, a.chain_id, a.res_seq, a.ins_code, a.x, a.y, a.z)
                        for a in bio.atoms]
        return out

    pmain.setup_molecule = setup_molecule
    pmain._vf_c07 = True


def norm_name(resn, name):
    """Documented alternate atom names -> canonical (own parse of AA.xml / NA.xml)."""
    res, _, _ = topo.load()
    base = topo.base_of(resn) or topo.NUCLEIC_BASE.get(resn) or ("WAT" if resn in ("HOH", "WAT") else None)
    if base and base in res:
        return res[base].alt.get(name, name)
    return name


def ident(resn, resi, icode, name, x, y, z):
    # documented renaming of v3 RNA residue names (A/C/G/U -> RA/RC/RG/RU) is not a change of the record
    rn = "WAT" if resn in ("HOH", "WAT") else {"A": "RA", "C": "RC", "G": "RG", "U": "RU"}.get(resn, resn)
    return (rn, resi, icode, norm_name(resn, name), round(x, 3), round(y, 3), round(z, 3))


def primary_feature(muts, info):
    order = ["blank_lines", "ws_lines", "end_repeated", "end_midfile", "models", "atoms_before_model"]
    for m in order:
        if m in muts:
            return m
    return "+".join(sorted(muts)) or "none"


def run_case(spec):
    install()
    res = Res()
    rng = random.Random(spec["seed"])
    for k in range(spec["n"]):
        w = rng.choice(["synth", "synth", "frag"])
        ws = {"w": w, "seed": spec["seed"] * 131 + k, "ff": "AMBER",
              "p": {"na_prob": 0.25, "waters": [0, 2, 5], "maxlen": 6, "hydrogens": ["none", "all", "some"],
                    "alias_prob": 0.25}}
        m = workload.materialise(ws)
        muts = rng.sample(MUTS, rng.choice([0, 1, 1, 2, 2, 3]))
        # incompatible pairs
        if "models" in muts and "end_missing" in muts:
            muts.remove("end_missing")
        text, info = pdbtext.apply(m["items"], muts, rng)
        dropw = rng.random() < 0.3
        want_all = pdbfmt.first_altloc(pdbfmt.read_first_model(text))
        if any("unparsed" in a for a in want_all):
            raise RuntimeError("generator produced a record the column reader cannot parse")
        want = [a for a in want_all if not (dropw and a["resn"] in ("HOH", "WAT"))]
        wantc = Counter(ident(a["resn"], a["resi"], a["icode"], a["name"], a["x"], a["y"], a["z"]) for a in want)
        feature = primary_feature(muts, info)
        wit = {"muts": muts, "drop_water": dropw, "source": w, "seed": ws["seed"], "records_first_model": len(want_all),
               "text_head": text[:600]}
        CAP["atoms"] = None
        opts = ["--clean"] + (["--drop-water"] if dropw else [])
        r = pipeline.run(text, opts, workname="c07")
        res.count("files")
        res.cell(feature, dropw)
        if muts:
            res.nt(tuple(sorted(muts)), dropw, w)
        if not r.ok:
            # a file made only of well-formed coordinate records + bookkeeping must be ingested, not rejected
            res.violate(f"ingest/rejected/{feature}", f"{type(r.exc).__name__}: {str(r.exc)[:100]} on a file with "
                        f"{len(want_all)} well-formed coordinate records (mutations {muts})", **wit)
            continue
        if CAP["atoms"] is not None:
            res.count("setup_molecule_hook")
            got = CAP["atoms"]
            gotc = Counter(ident(g[2], g[4], g[5], g[1], g[6], g[7], g[8]) for g in got)
        else:
            res.count("fallback_clean_pqr")
            pq = pipeline.parse_pqr(r.pqr_text)
            gotc = Counter(ident(a["resn"], a["resi"], a["icode"], a["name"], a["x"], a["y"], a["z"]) for a in pq)
        res.count("atoms_compared", sum(wantc.values()))
        if gotc != wantc:
            missing = wantc - gotc
            extra = gotc - wantc
            kind = "lost" if missing and not extra else "extra" if extra and not missing else "differs"
            wat_kind = ""
            if dropw and any(k2[0] == "WAT" for k2 in extra):
                wat_kind = "/water-kept-despite-drop-water"
            elif not dropw and missing and all(k2[0] == "WAT" for k2 in missing):
                wat_kind = "/water-lost-without-drop-water"
            res.violate(f"ingest/{kind}/{feature}{wat_kind}", f"{sum(missing.values())} of {sum(wantc.values())} "
                        f"records missing, {sum(extra.values())} unexpected (mutations {muts}); e.g. missing "
                        f"{list(missing)[:2]} extra {list(extra)[:2]}", **wit)
    res.sample = {"muts": muts, "drop_water": dropw, "records": len(want_all), "ingested": sum(gotc.values()) if r.ok else None}
    return res


def setup_worker():
    import logging
    logging.getLogger().setLevel(logging.CRITICAL)
