"""C13 - disulfide bridges are detected symmetrically and exclusively.

SS-pair placer: two cysteine-containing peptides positioned by a rigid motion so that SG-SG equals a chosen
distance (dense around the 2.5 A limit); geometric ground truth is recomputed from the coordinates as written to
the file.  Oracle on the returned biomolecule and the PQR lines.
"""
import math
import random

import numpy as np

from .. import common, pipeline
from ..gen import pdbfmt
from ..gen import structures as S
from ..mon import match
from ..ref import ffmap
from ..ref.rigid import kabsch, random_rotation
from ..run import Res

ID = "C13"
LEVEL = "exploration"
EVAL_COUNTER = "placements"
RULE = ("two peptides with one cysteine each (cysteine at N-terminal, internal or C-terminal position) placed so that "
        "SG-SG = d for d in 1.8..3.2 with dense sampling at 2.5 +- {0.002..0.1}; same chain id / different chains / "
        "blank chains; either file order; colliding residue numbers; optional decoy third cysteine just outside the "
        "limit or a real third sulfur inside it (then only the 'no silent asymmetric bridge' clause applies); six "
        "force fields; debump/opt on and off. Non-trivial: |d - 2.5| <= 0.1 or swapped order or same chain or decoy; "
        "distinct = (side of the limit, distance class, chain scheme, order, cys positions, decoy, force field)"
        ' Round-2 additions: cysteines entered under the state names CYX / CYM; real disulfides in context (long stretches of the local proteins) under random rigid motions.'
        ' Round-3/4 additions: bridged cysteines whose SG (or CB+SG) is missing from the input and is rebuilt by repair (judged on final coordinates under --nodebump).'
        ' Round-8 additions: both cysteines in one peptide - sequence neighbours (vicinal disulfide) and loops of two / three residues - with the distance set through the chi1 torsions.')
ASSUMPTIONS = ["ground truth distances are recomputed from the 3-decimal coordinates in the file and cases within "
               "1e-6 of the limit are discarded"]
MIN = {"quick": {"placements": 250, "bridged_pairs_checked": 90, "free_pairs_checked": 90, "near_limit": 100, "real_structures": 6, "rebuilt_structures": 3, "bridges_with_rebuilt_sulfur_checked": 6, "intra_chain_placements": 20, "vicinal_bridges": 3},
       "thorough": {"placements": 4500, "bridged_pairs_checked": 1800, "free_pairs_checked": 1800, "near_limit": 2000, "real_structures": 500, "rebuilt_structures": 200, "bridges_with_rebuilt_sulfur_checked": 400, "intra_chain_placements": 1500, "vicinal_bridges": 300}}
LIMIT = 2.5


def cases(tier, seed):
    n = 320 if tier == "quick" else 30000
    out = [{"seed": seed * 9973 + i} for i in range(n)]
    # real disulfides in context: long stretches of the local proteins under random rigid motions
    nr = 14 if tier == "quick" else 1200
    out += [{"kind": "real", "seed": seed * 8887 + i, "src": ["1AJJ", "1K1I", "1BX8", "1US0", "1QBS", "1AFS", "1A1P"][i % 7]}
            for i in range(nr)]
    # a bridged cysteine whose SG (or CB and SG) is missing from the input: the sulfur is rebuilt by heavy-atom repair
    # and the pair must still be recognised (judged on the final coordinates, only when nothing moves afterwards)
    nb = 14 if tier == "quick" else 1200
    out += [{"kind": "rebuilt", "seed": seed * 8893 + i, "src": ["1AJJ", "1K1I", "1BX8", "1AJJ", "1US0", "1QBS", "1AJJ"][i % 7]}
            for i in range(nb)]
    # both cysteines in one peptide: sequence neighbours (vicinal disulfide) and short loops
    ni = 40 if tier == "quick" else 3000
    out += [{"kind": "intra", "seed": seed * 8899 + i, "gap": (1, 1, 2, 3)[i % 4]} for i in range(ni)]
    return out


def run_rebuilt(spec, res):
    from ..gen import workload
    rng = random.Random(spec["seed"])
    ff = common.FFS[spec["seed"] % 6]
    m = workload.materialise({"w": "frag", "seed": spec["seed"], "ff": ff,
                              "p": {"src": spec["src"], "nwin": 1, "long_max": 150, "water_prob": 0.0}})
    items = m["items"]
    text0 = pdbfmt.to_text(items)
    P, CA, dist, partners, names = file_truth(text0)
    pairs = sorted({tuple(sorted((i, j))) for i, ps in partners.items() if len(ps) == 1 for j in ps
                    if partners[j] == [i] and dist[(max(i, j), min(i, j))] < 2.2})
    if not pairs:
        res.count("rebuilt_without_bridges")
        return
    # delete SG (sometimes CB too) of one partner of some bridges
    recs = [a for a in items if isinstance(a, dict)]
    sg_atoms = [a for a in recs if a["name"] == "SG" and a["resn"] in ("CYS", "CYX", "CYM")]
    doomed = set()
    for i, j in pairs:
        if rng.random() < 0.7:
            a = sg_atoms[rng.choice([i, j])]
            key = (a["chain"], a["resi"], a["icode"])
            doomed.add((key, "SG"))
            if rng.random() < 0.3:
                doomed.add((key, "CB"))
    if not doomed:
        return
    items[:] = [a for a in items if not (isinstance(a, dict) and ((a["chain"], a["resi"], a["icode"]), a["name"]) in doomed)
                and not (isinstance(a, dict) and a["name"].startswith("H") and
                         any(k == (a["chain"], a["resi"], a["icode"]) for k, _n in doomed))]
    pdbfmt.renumber(items)
    text = pdbfmt.to_text(items)
    opts = [f"--ff={ff}", "--nodebump"] + rng.choice([[], ["--noopt"]])
    r = pipeline.run(text, opts, workname="c13")
    res.count("placements")
    res.count("rebuilt_structures")
    if not r.ok:
        res.count("runs_failed")
        res.note(f"rebuilt {spec['src']} failed: {type(r.exc).__name__} {str(r.exc)[:80]}")
        return
    # final sulfur positions (no debumping: nothing moves after repair)
    cys = [rr for rr in r.bio.residues if rr.name in ("CYS", "CYX", "CYM") and rr.get_atom("SG") is not None]
    S_ = [np.array(rr.get_atom("SG").coords) for rr in cys]
    n = len(cys)
    d = {(i, j): float(np.linalg.norm(S_[i] - S_[j])) for i in range(n) for j in range(i)}
    near = {i: [j for j in range(n) if j != i and d[(max(i, j), min(i, j))] < 2.7] for i in range(n)}
    wit = {"src": spec["src"], "seed": spec["seed"], "opts": opts, "removed": sorted(f"{k[0]}{k[1]}{k[2]}:{nm}" for k, nm in doomed)}
    res.nt("rebuilt", spec["src"], ff, tuple(opts[1:]), len(doomed))
    res.cell("rebuilt", spec["src"], ff)
    for i in range(n):
        if len(near[i]) != 1 or near[near[i][0]] != [i]:
            continue
        j = near[i][0]
        dij = d[(max(i, j), min(i, j))]
        if dij >= 2.3:
            continue                      # too close to the limit to be judged on final coordinates
        rebuilt_here = any(k == (cys[x].chain_id, cys[x].res_seq, cys[x].ins_code) for x in (i, j) for k, _n in doomed)
        res.count("bridged_pairs_checked")
        if rebuilt_here:
            res.count("bridges_with_rebuilt_sulfur_checked")
        problems = []
        if cys[i].has_atom("HG"):
            problems.append("keeps HG")
        partner = getattr(cys[i], "ss_bonded_partner", None)
        if partner is None or partner.residue is not cys[j]:
            problems.append(f"partner is {getattr(partner, 'residue', None)}, expected {cys[j]}")
        if problems:
            res.violate("bridge/not-detected-or-asymmetric" + ("/sulfur-rebuilt-by-repair" if rebuilt_here else ""),
                        f"final SG-SG = {dij:.3f} < 2.5 but {cys[i]}: " + "; ".join(problems), **wit)
    res.sample = {"kind": "rebuilt", "src": spec["src"], "removed": wit["removed"]}


def run_real(spec, res):
    from ..gen import workload
    rng = random.Random(spec["seed"])
    ff = common.FFS[spec["seed"] % 6]
    m = workload.materialise({"w": "frag", "seed": spec["seed"], "ff": ff,
                              "p": {"src": spec["src"], "nwin": 1, "long_max": 150, "water_prob": 0.3}})
    items = m["items"]
    # rigid motion of the whole structure (detection must not depend on absolute placement)
    R = random_rotation(rng) if rng.random() < 0.7 else np.eye(3)
    t = np.array([rng.choice([0.0, rng.uniform(-60, 60), rng.uniform(-900, 900)]) for _ in range(3)])
    for a in items:
        if isinstance(a, dict):
            x = R @ np.array([a["x"], a["y"], a["z"]]) + t
            a["x"], a["y"], a["z"] = (round(float(v), 3) for v in x)
    # some cysteines entered under their state names
    rename = {}
    for a in items:
        if isinstance(a, dict) and a["resn"] == "CYS":
            k = (a["chain"], a["resi"], a["icode"])
            if k not in rename:
                rename[k] = rng.choice(["CYS"] * 6 + ["CYX"])
            a["resn"] = rename[k]
    text = pdbfmt.to_text(items)
    P, CA, dist, partners, names = file_truth(text)
    if not P or any(c is None for c in CA) or any(abs(v - LIMIT) < 2e-3 for v in dist.values()):
        res.count("real_without_cysteines_or_at_limit")
        return
    opts = [f"--ff={ff}"] + rng.choice([[], [], ["--noopt"], ["--nodebump"]])
    r = pipeline.run(text, opts, workname="c13")
    res.count("placements")
    res.count("real_structures")
    wit = {"src": spec["src"], "seed": spec["seed"], "opts": opts, "n_cys": len(P),
           "pairs_within_limit": sorted({tuple(sorted((i, j))) for i, ps in partners.items() for j in ps}),
           "input_names": names}
    if not r.ok:
        res.count("runs_failed")
        res.note(f"real {spec['src']} failed: {type(r.exc).__name__} {str(r.exc)[:80]}")
        return
    res.cell("real", spec["src"], ff)
    res.nt("real", spec["src"], ff, tuple(opts[1:]), len(P))
    judge(res, r, ff, P, CA, dist, partners, wit, names)
    res.sample = {"kind": "real", "src": spec["src"], "cysteines": len(P), "bridges": len(wit["pairs_within_limit"])}


def sg_of(res):
    return next(x for n, x in res["atoms"] if n == "SG")


def place(pepA, ia, pepB, ib, d, rng):
    """Rigidly move pepB so that SG_B = SG_A + d * u with B lying on the far side."""
    sga = sg_of(pepA[ia])
    u = sga - S.centroid(pepA)
    u = u / np.linalg.norm(u)
    # tilt the approach direction a little
    t = np.array([rng.gauss(0, 0.25) for _ in range(3)])
    u = u + t - np.dot(t, u) * u
    u = u / np.linalg.norm(u)
    S.transform(pepB, random_rotation(rng), np.zeros(3))
    sgb = sg_of(pepB[ib])
    v = S.centroid(pepB) - sgb
    v = v / np.linalg.norm(v)
    # rotation taking v to u
    c = np.cross(v, u)
    if np.linalg.norm(c) < 1e-9:
        R = np.eye(3) if np.dot(v, u) > 0 else -np.eye(3)
    else:
        from ..ref.rigid import rodrigues
        R = rodrigues(c, math.degrees(math.atan2(np.linalg.norm(c), np.dot(v, u))))
    S.transform(pepB, R, np.zeros(3))
    sgb = sg_of(pepB[ib])
    S.transform(pepB, np.eye(3), sga + d * u - sgb)
    return pepB


def file_truth(text):
    """Geometric ground truth from the file as written: SG positions, the CA of the same residue (backbone atoms never
    move; SG may be rotated about chi1 by debumping), pair distances, partners within the limit."""
    recs = pdbfmt.read_first_model(text)
    sgs = [(i, a) for i, a in enumerate(recs) if a["name"] == "SG" and a["resn"] in ("CYS", "CYX", "CYM")]
    P = [np.array([a["x"], a["y"], a["z"]]) for _, a in sgs]
    CA = []
    for i, a in sgs:
        same = [b for b in recs[max(0, i - 30):i + 30] if b["resi"] == a["resi"] and b["chain"] == a["chain"]
                and b["icode"] == a["icode"] and b.get("seg") == a.get("seg") and b["name"] == "CA"]
        CA.append(np.array([same[0]["x"], same[0]["y"], same[0]["z"]]) if same else None)
    dist = {(i, j): float(np.linalg.norm(P[i] - P[j])) for i in range(len(P)) for j in range(i)}
    partners = {i: [j for j in range(len(P)) if j != i and dist[(max(i, j), min(i, j))] < LIMIT] for i in range(len(P))}
    return P, CA, dist, partners, [a["resn"] for _, a in sgs]


def judge(res, r, ff, P, CA, dist, partners, wit, names):
    """Oracle on the returned biomolecule and the PQR lines; -> {file SG index: residue} or None."""
    # map file SG order -> residues of the biomolecule by coordinates
    cys = []
    for residue in r.bio.residues:
        if residue.name in ("CYS", "CYX", "CYM") and residue.get_atom("SG") is not None and residue.get_atom("CA"):
            a = residue.get_atom("CA")
            k = next((i for i, p in enumerate(CA) if np.linalg.norm(p - np.array([a.x, a.y, a.z])) < 2e-3), None)
            cys.append((k, residue))
    bykey = dict(cys)
    if len(bykey) != len(P) or None in bykey:
        res.violate("cys/lost", f"{len(P)} cysteine SG atoms in the file, {len(bykey)} identified in the result", **wit)
        return None
    model = ffmap.builtin(ff)
    pq = pipeline.parse_pqr(r.pqr_text)
    written = match.written_atoms(r.bio, r.missed)
    line_of = {id(a): ln for a, ln in zip(written, pq)} if len(pq) == len(written) else {}
    for i, residue in bykey.items():
        ps = partners[i]
        bridged_truth = len(ps) == 1 and partners[ps[0]] == [i]
        ambiguous = len(ps) > 1 or any(len(partners[j]) > 1 for j in ps)
        has_hg = residue.has_atom("HG")
        partner = getattr(residue, "ss_bonded_partner", None)
        sg = residue.get_atom("SG")
        row_cyx = ffmap.lookup(model, _term(residue, "CYX"), "SG")
        row_cys = ffmap.lookup(model, _term(residue, "CYS"), "SG")
        w = dict(wit, cys_index=i, partners_within_limit=ps, has_HG=has_hg, ss_bonded=bool(getattr(residue, "ss_bonded", 0)),
                 residue=str(residue))
        if ambiguous:
            res.count("ambiguous_cysteines")
            # three sulfurs within the limit of each other: outside the property's premise (observed, not judged)
            if partner is not None and getattr(partner.residue, "ss_bonded_partner", None) is not sg:
                res.count("one_sided_bridge_in_ambiguous_cluster_observed")
            continue
        if bridged_truth:
            res.count("bridged_pairs_checked")
            other = bykey[ps[0]]
            problems = []
            if has_hg:
                problems.append("keeps HG")
            if partner is None or partner.residue is not other:
                problems.append(f"partner is {getattr(partner, 'residue', None)}, expected {other}")
            if row_cyx and row_cys and row_cyx != row_cys and id(sg) in line_of:
                ln = line_of[id(sg)]
                if abs(ln["q"] - row_cyx[0]) > 6e-5 or abs(ln["r"] - row_cyx[1]) > 6e-5:
                    problems.append(f"SG written with q={ln['qs']} r={ln['rs']}, bridged-cysteine row is {row_cyx[:2]}")
            if row_cyx and line_of and id(sg) not in line_of:
                # the force field has a bridged-cysteine row for this chain position, yet the sulfur is not written
                problems.append(f"SG is not written at all although {ff} has the row {_term(residue, 'CYX')}/SG = "
                                f"{row_cyx[:2]}")
            if problems:
                res.violate("bridge/not-detected-or-asymmetric", f"SG-SG = {dist[(max(i, ps[0]), min(i, ps[0]))]:.4f} < "
                            f"2.5 but {residue}: " + "; ".join(problems), **w)
        elif names[i] != "CYS":
            res.count("free_cysteines_entered_as_CYX_or_CYM_not_judged")
        else:
            res.count("free_pairs_checked")
            problems = []
            if not has_hg:
                problems.append("lost HG")
            if partner is not None or getattr(residue, "ss_bonded", 0):
                problems.append("is flagged as bridged")
            if row_cyx and row_cys and row_cyx != row_cys and id(sg) in line_of:
                ln = line_of[id(sg)]
                if abs(ln["q"] - row_cys[0]) > 6e-5 or abs(ln["r"] - row_cys[1]) > 6e-5:
                    problems.append(f"SG written with q={ln['qs']} r={ln['rs']}, free-cysteine row is {row_cys[:2]}")
            if problems:
                nearest = min((dist[(max(i, j), min(i, j))] for j in range(len(P)) if j != i), default=None)
                res.violate("free-cysteine/treated-as-bridged", f"nearest SG at {nearest:.4f} >= 2.5 but {residue}: "
                            + "; ".join(problems), **w)
    return bykey


def _rotate_chi1(residue, angle):
    """Rotate SG (and HG) of a cysteine about its CA->CB axis by `angle` degrees, in place."""
    from ..ref.rigid import rodrigues
    at = dict(residue["atoms"])
    R = rodrigues(at["CB"] - at["CA"], angle)
    residue["atoms"] = [(n, at["CB"] + R @ (x - at["CB"])) if n in ("SG", "HG") else (n, x) for n, x in residue["atoms"]]


def run_intra(spec, res):
    """Both cysteines in ONE peptide (sequence neighbours - a vicinal disulfide - or two / three residues apart): the
    SG-SG distance is set by rotating the two chi1 torsions, so every bond length and angle stays as built."""
    rng = random.Random(spec["seed"])
    c = rng.random()
    if c < 0.45:
        d, dcls = LIMIT + rng.choice([-1, 1]) * rng.choice([0.003, 0.01, 0.02, 0.05, 0.1]), "near"
    elif c < 0.8:
        d, dcls = rng.uniform(1.95, 2.45), "inside"
    else:
        d, dcls = rng.uniform(2.55, 3.2), "outside"
    gap = spec["gap"]
    pool = ["ALA", "GLY", "SER", "LEU", "VAL", "THR", "LYS", "ASN"]
    hyd = rng.choice(["none", "none", "all"])
    found = None
    for _try in range(60):
        n = rng.randint(gap + 1, gap + 4)
        i = rng.randint(0, n - gap - 1)
        seq = [rng.choice(pool) for _ in range(n)]
        seq[i] = seq[i + gap] = "CYS"
        # backbone torsions drawn from the broad allowed regions (the stock extended conformations keep neighbouring
        # side chains on opposite sides, so their sulfurs cannot meet)
        pp = [(rng.uniform(-160, -50), rng.choice([rng.uniform(-70, -20), rng.uniform(100, 180), rng.uniform(-20, 100)]))
              if rng.random() < 0.85 else (rng.uniform(45, 75), rng.uniform(20, 60)) for _ in seq]
        pep = S.peptide(seq, rng, hydrogens=hyd, phipsi=pp)
        heavy_all = [(k, nme, x) for k, r in enumerate(pep) for nme, x in r["atoms"] if not nme.startswith("H")]
        if any(abs(k1 - k2) > 1 and float(np.linalg.norm(x1 - x2)) < 2.6 for k1, n1, x1 in heavy_all for k2, n2, x2 in heavy_all
               if k1 < k2 and "SG" not in (n1, n2)):
            continue
        # coarse scan of the two chi1 rotations, then bisection on the second one
        best = None
        for a in range(0, 360, 15):
            pa = [dict(r, atoms=list(r["atoms"])) for r in pep]
            _rotate_chi1(pa[i], a)
            prev = None
            for b in range(0, 361, 15):
                pb = dict(pa[i + gap], atoms=list(pa[i + gap]["atoms"]))
                _rotate_chi1(pb, b)
                dd = float(np.linalg.norm(sg_of(pa[i]) - sg_of(pb)))
                if prev is not None and (prev[1] - d) * (dd - d) <= 0:
                    best = (a, prev[0], b)
                    break
                prev = (b, dd)
            if best:
                break
        if not best:
            continue
        a, lo, hi = best
        _rotate_chi1(pep[i], a)

        def dist_at(b):
            pb = dict(pep[i + gap], atoms=list(pep[i + gap]["atoms"]))
            _rotate_chi1(pb, b)
            return float(np.linalg.norm(sg_of(pep[i]) - sg_of(pb)))
        flo = dist_at(lo) - d
        for _ in range(40):
            mid = (lo + hi) / 2
            fm = dist_at(mid) - d
            if (flo <= 0) == (fm <= 0):
                lo, flo = mid, fm
            else:
                hi = mid
        _rotate_chi1(pep[i + gap], (lo + hi) / 2)
        # the sulfurs must not sit on top of other heavy atoms of the peptide (a physically absurd input)
        others = [x for k, r in enumerate(pep) for nme, x in r["atoms"] if not nme.startswith("H")
                  and not (k in (i, i + gap) and nme in ("SG", "CB", "CA"))]
        if min(float(np.linalg.norm(x - sg_of(pep[k]))) for x in others for k in (i, i + gap)) < 2.0:
            continue
        found = (pep, seq, i)
        break
    if found is None:
        res.count("intra_chain_no_geometry_found")
        return
    pep, seq, i = found
    items, truth = S.assemble([{"id": rng.choice(["A", "", "B"]), "start": rng.choice([1, 7, 98]), "residues": pep}])
    text = pdbfmt.to_text(items)
    P, CA, dist, partners, names = file_truth(text)
    if any(abs(v - LIMIT) < 1e-6 for v in dist.values()) or any(c_ is None for c_ in CA):
        return
    ff = common.FFS[spec["seed"] % 6]
    opts = [f"--ff={ff}"] + rng.choice([[], [], ["--noopt"], ["--nodebump"], ["--nodebump", "--noopt"]])
    r = pipeline.run(text, opts, workname="c13")
    res.count("placements")
    res.count("intra_chain_placements")
    wit = {"d_requested": d, "distances": {f"{a_}-{b_}": round(v, 4) for (a_, b_), v in dist.items()}, "scheme": f"intra+{gap}",
           "sequence": seq, "opts": opts, "seed": spec["seed"]}
    if not r.ok:
        res.count("runs_failed")
        res.note(f"failed: {type(r.exc).__name__} {str(r.exc)[:80]} {wit}")
        return
    main = dist[(1, 0)]
    if dcls == "near":
        res.count("near_limit")
    if main < LIMIT:
        res.count("intra_chain_bridges" if gap > 1 else "vicinal_bridges")
    res.cell("inside" if main < LIMIT else "outside", dcls, f"intra+{gap}")
    res.nt("inside" if main < LIMIT else "outside", round(abs(main - LIMIT), 3) if dcls == "near" else dcls, f"intra+{gap}", ff)
    bykey = judge(res, r, ff, P, CA, dist, partners, dict(wit, input_names=names), names)
    if bykey is not None:
        res.sample = {"kind": "intra", "gap": gap, "d": round(main, 4), "opts": opts,
                      "states": [(str(rr), rr.has_atom("HG")) for _, rr in sorted(bykey.items())]}


def run_case(spec):
    res = Res()
    if spec.get("kind") == "intra":
        run_intra(spec, res)
        return res
    if spec.get("kind") == "real":
        run_real(spec, res)
        return res
    if spec.get("kind") == "rebuilt":
        run_rebuilt(spec, res)
        return res
    rng = random.Random(spec["seed"])
    c = rng.random()
    if c < 0.55:
        d = LIMIT + rng.choice([-1, 1]) * rng.choice([0.002, 0.003, 0.005, 0.01, 0.02, 0.05, 0.1])
        dcls = "near"
    elif c < 0.8:
        d = rng.uniform(1.8, 2.45)
        dcls = "inside"
    else:
        d = rng.uniform(2.55, 3.2)
        dcls = "outside"
    pool = ["ALA", "GLY", "SER", "LEU", "VAL", "THR", "LYS", "ASN"]
    posA, posB = rng.choice("NIC"), rng.choice("NIC")

    def seq(pos):
        n = rng.randint(3, 5)
        s = [rng.choice(pool) for _ in range(n)]
        # the cysteine may be entered under its state names (bridged CYX, thiolate CYM) - accepted input forms
        s[{"N": 0, "I": n // 2, "C": n - 1}[pos]] = rng.choice(["CYS"] * 5 + ["CYX", "CYM"])
        return s

    def cpos(s):
        return next(i for i, x in enumerate(s) if x in ("CYS", "CYX", "CYM"))

    sa, sb = seq(posA), seq(posB)
    # some inputs already carry hydrogens, the thiol HG included (both partners of a bridge must lose it)
    hyd = rng.choice(["none", "none", "all"])
    pepA, pepB = S.peptide(sa, rng, hydrogens=hyd), S.peptide(sb, rng, hydrogens=hyd)
    place(pepA, cpos(sa), pepB, cpos(sb), d, rng)
    decoy = rng.choice(["none", "none", "outside", "inside"])
    chains = [pepA, pepB]
    if decoy != "none":
        sc = ["GLY", "CYS", "ALA"]
        pepC = S.peptide(sc, rng)
        dd = 2.62 if decoy == "outside" else 2.3
        # approach cysteine A from the side opposite to B as far as possible
        tmp = [dict(r, atoms=list(r["atoms"])) for r in pepA]
        place(tmp, cpos(sa), pepC, 1, dd, rng)
        # move C to the side: rotate about SG_A->centroid axis is not needed; keep if far from B
        ptsB = np.array([x for r in pepB for _, x in r["atoms"]])
        ptsC = np.array([x for r in pepC for _, x in r["atoms"]])
        if np.sqrt(((ptsB[:, None] - ptsC[None]) ** 2).sum(-1)).min() < 1.5:
            decoy = "none"
        else:
            chains.append(pepC)
    scheme = rng.choice(["diff", "diff", "same_ter", "blank", "same_number"])
    order = rng.choice(["AB", "BA"])
    ordered = chains if order == "AB" else [chains[1], chains[0]] + chains[2:]
    entries = []
    for k, ch in enumerate(ordered):
        cid = {"diff": "ABC"[k], "same_ter": "A", "blank": "", "same_number": "ABC"[k]}[scheme]
        start = {"diff": 1 + 10 * k, "same_ter": 1 + 50 * k, "blank": 1, "same_number": 7}[scheme]
        entries.append({"id": cid, "start": start, "residues": ch})
    items, truth = S.assemble(entries)
    text = pdbfmt.to_text(items)
    P, CA, dist, partners, names = file_truth(text)
    if any(abs(v - LIMIT) < 1e-6 for v in dist.values()) or any(c is None for c in CA):
        return res
    # SSBOND header records: absent, naming the real pair, naming other residues (incomplete / stale header after a
    # renumbering) - detection is geometric, the header is an annotation
    hdr = rng.choice(["none", "none", "true", "stale", "other"])
    if hdr != "none":
        cysr = [a for a in items if isinstance(a, dict) and a["name"] == "SG"]
        def ss(a, b, k=1):
            return "SSBOND %3d CYS %1s %4d%1s   CYS %1s %4d%1s                       %6s %6s %5.2f" % (
                k, a["chain"] or " ", a["resi"], a["icode"] or " ", b["chain"] or " ", b["resi"], b["icode"] or " ",
                "1555", "1555", 2.03)
        lines = []
        if hdr == "true" and len(cysr) >= 2:
            lines.append(ss(cysr[0], cysr[1]))
        elif hdr == "stale" and len(cysr) >= 2:
            lines.append(ss(dict(cysr[0], resi=cysr[0]["resi"] + 40), dict(cysr[1], resi=cysr[1]["resi"] + 40)))
        elif hdr == "other":
            lines.append(ss(dict(cysr[0], resi=777, chain="Q"), dict(cysr[0], resi=778, chain="Q")))
        text = "\n".join(lines) + "\n" + text
    ff = common.FFS[spec["seed"] % 6]
    opts = [f"--ff={ff}"] + rng.choice([[], [], ["--noopt"], ["--nodebump"], ["--nodebump", "--noopt"]])
    r = pipeline.run(text, opts, workname="c13")
    res.count("placements")
    wit = {"d_requested": d, "distances": {f"{i}-{j}": round(v, 4) for (i, j), v in dist.items()}, "scheme": scheme,
           "order": order, "positions": posA + posB, "decoy": decoy, "opts": opts, "seed": spec["seed"], "ssbond_header": hdr}
    if not r.ok:
        res.count("runs_failed")
        res.note(f"failed: {type(r.exc).__name__} {str(r.exc)[:80]} {wit}")
        return res
    if dcls == "near":
        res.count("near_limit")
    main = dist[(1, 0)]
    res.cell("inside" if main < LIMIT else "outside", dcls, scheme, order, decoy)
    if dcls == "near" or order == "BA" or scheme in ("same_ter", "blank", "same_number") or decoy != "none":
        res.nt("inside" if main < LIMIT else "outside", round(abs(main - LIMIT), 3) if dcls == "near" else dcls, scheme,
               order, posA + posB, decoy, ff)
    bykey = judge(res, r, ff, P, CA, dist, partners, dict(wit, input_names=names), names)
    if bykey is None:
        return res
    res.sample = {"d": round(main, 4), "scheme": scheme, "order": order, "decoy": decoy, "opts": opts,
                  "states": [(str(rr), rr.has_atom("HG")) for _, rr in sorted(bykey.items())]}
    return res


def _term(residue, name):
    # terminal prefix from the atoms present (H2/H3 => N-terminal, OXT => C-terminal)
    if residue.has_atom("H2") or residue.has_atom("H3"):
        return "N" + name
    if residue.has_atom("OXT"):
        return "C" + name
    return name


def setup_worker():
    import logging
    logging.getLogger().setLevel(logging.CRITICAL)
