"""C03 - no atom is silently lost, duplicated or invented.

Conservation over whole runs: input heavy atoms (after documented alt-name normalisation by our own XML parse)
= final-model atoms that were not added (+) atoms whose deletion was reported; final model = written (+) reported
unassigned; written atom-name set of each fully parameterised residue = the topology's set for its independently
derived final state; no placeholder names.  An event log on Residue.remove_atom gives the witness (who removed
what) and a branch counter shows which optimisation paths ran.
"""
import logging
import random
import sys
from collections import Counter

from .. import common, pipeline
from ..gen import pdbfmt, workload
from ..mon import match
from ..ref import states
from ..ref import topology as topo
from ..run import Res

ID = "C03"
LEVEL = "exploration"
EVAL_COUNTER = "residues_checked"
RULE = ("lattice cases (every input residue name x position x force field), synthetic / fragment structures with "
        "dense packing, waters (0/1/2 hydrogens present), pre-existing hydrogens (none/all/side/partial), deleted "
        "side-chain heavy atoms (repair), extra atoms (junk names on standard residues), nucleic strands with and "
        "without 5' phosphate; options: debump/opt on-off, assign-only, clean, drop-water, neutral termini, pKa-driven "
        "states through the stubbed pKa source. Non-trivial: run that added, removed or renamed at least one atom; "
        "distinct = (force field, option set, final state, position) cells plus optimisation branches entered"
        ' Round-2 additions: long real stretches; alternate atom names (documented aliases) and alternate locations on the same atoms; v3 RNA names.'
        ' Round-3/4 additions: the residue view of the final model is traced against written + reported atoms; chain-topology stressors (several molecules under one chain id) with --clean; --ligand runs with four-site waters; unequal carboxyl C-O bonds.')
ASSUMPTIONS = ["a deletion is 'reported' when a WARNING record names the atom and its residue number, or it is the "
               "5'-terminal phosphate group (P, OP1/O1P, OP2/O2P) of a strand",
               "alternate atom names are the ones listed in AA.xml / NA.xml / PATCHES.xml",
               "'fully parameterised' = every atom of the residue received parameters"]
MIN = {"quick": {"residues_checked": 1500, "atom_set_checks": 900, "input_heavy_atoms_traced": 12000,
                 "remove_atom_events": 1500, "altloc_inputs": 15, "ligand_runs": 8, "model_atoms_traced": 10000, "big_outputs_over_9999_atoms": 3},
       "thorough": {"residues_checked": 60000, "atom_set_checks": 35000, "input_heavy_atoms_traced": 500000,
                    "remove_atom_events": 60000, "altloc_inputs": 1000, "ligand_runs": 600, "model_atoms_traced": 1000000, "big_outputs_over_9999_atoms": 45}}
BRANCHES_REQUIRED = {"quick": 25, "thorough": 30}

EV = {"removed": [], "installed": False, "branches": Counter()}
BRANCH_METHODS = ["try_both", "try_donor", "try_acceptor", "finalize", "complete", "fix_flip", "rename",
                  "try_single_alcoholic_h", "try_single_alcoholic_lp", "try_positions_with_two_bonds_h",
                  "try_positions_with_two_bonds_lp", "try_positions_three_bonds_h", "try_positions_three_bonds_lp",
                  "make_atom_with_no_bonds", "make_water_with_one_bond", "make_atom_with_one_bond_h",
                  "make_atom_with_one_bond_lp"]


def install():
    if EV["installed"]:
        return
    from pdb2pqr import residue as rmod
    orig = rmod.Residue.remove_atom

    def remove_atom(self, atomname):
        atom = self.map.get(atomname)
        fr = sys._getframe(1)
        EV["removed"].append({"residue": f"{self.name} {self.chain_id} {self.res_seq}{self.ins_code}", "resi": self.res_seq,
                              "name": atomname, "added": bool(getattr(atom, "added", 0)),
                              "by": f"{fr.f_code.co_name}:{fr.f_lineno}"})
        return orig(self, atomname)

    rmod.Residue.remove_atom = remove_atom
    # branch counter on the optimisation classes (evidence only)
    try:
        from pdb2pqr.hydrogens import optimize as hopt
        from pdb2pqr.hydrogens import structures as hstr
        for cls in (hstr.Flip, hstr.Alcoholic, hstr.Water, hstr.Carboxylic, hstr.Generic, hopt.Optimize):
            for name in BRANCH_METHODS:
                if name in vars(cls):
                    _count(cls, name)
    except Exception:  # noqa: BLE001  (layer unavailable on a refactored tree: evidence only)
        EV["branches"]["hook_unavailable"] += 1
    EV["installed"] = True


def _count(cls, name):
    import types
    orig = vars(cls)[name]
    if not isinstance(orig, types.FunctionType):
        return      # classmethod / staticmethod helpers are not branch points

    def wrapper(*a, **k):
        EV["branches"][f"{cls.__name__}.{name}"] += 1
        return orig(*a, **k)

    setattr(cls, name, wrapper)


def _altloc_case(seed):
    """About one run in five gets alternate locations (a hash, so that every force field is reached)."""
    import zlib
    return zlib.crc32(str(seed).encode()) % 5 == 1


def cases(tier, seed):
    out = []

    def opts(rng, spec):
        o = [f"--ff={spec['ff']}"]
        c = rng.random()
        if c < 0.1:
            o.append("--noopt")
        elif c < 0.18:
            o.append("--nodebump")
        elif c < 0.24:
            o += ["--nodebump", "--noopt"]
        elif c < 0.3:
            o.append("--drop-water")
        if spec["ff"] == "PARSE" and rng.random() < 0.3:
            o.append(rng.choice(["--neutraln", "--neutralc"]))
        return o

    for rep in range(1 if tier == "quick" else 40):
        for spec in workload.lattice_cases(seed * 41 + rep, opts_fn=opts, p={"hydrogens": ["none", "all", "some", "side"]}):
            spec["kind"] = "run"
            out.append(spec)
    n = 200 if tier == "quick" else 28000
    for spec in workload.standard_cases(tier, seed, n, n, opts_fn=opts, frag_share=0.35,
                                        p={"icode_prob": 0.2, "variant_prob": 0.2, "no_element_prob": 0.3, "nterm_amide_prob": 0.5, "na_prob": 0.15, "waters": [0, 2, 5, 8],
                                           "damage_prob": 0.25, "carboxyl_asym_prob": 0.4, "alias_prob": 0.2, "dense_prob": 0.8, "crowd_prob": 0.2, "water_repeat_prob": 0.25,
                                           "hydrogens": ["none", "none", "all", "some", "side"]}):
        spec["kind"] = "run"
        spec["extra_atoms"] = spec["seed"] % 5 == 0
        if _altloc_case(spec["seed"]) and not spec["extra_atoms"]:
            # these inputs get alternate locations in run_case: combine them with alternate atom names
            spec["p"] = dict(spec["p"], alias_prob=0.7)
        out.append(spec)
    # long stretches / whole chains of the real proteins
    for spec in workload.long_cases(seed, 7 if tier == "quick" else 420, opts_fn=opts,
                                    long_max=150 if tier == "quick" else 400):
        spec["kind"] = "run"
        spec["extra_atoms"] = False
        out.append(spec)
    # chain-topology stressors (several molecules under one chain id, hidden chain ends, blank ids), also with --clean
    nts = 96 if tier == "quick" else 6000
    rngt = random.Random(seed * 59 + 1)
    for i in range(nts):
        ff = common.FFS[i % 6]
        o = [["--clean"], [f"--ff={ff}"], [f"--ff={ff}", "--noopt"], ["--clean"]][(i // 6) % 4]
        sch = rngt.choice(["merged_oxt", "merged_oxt", "merged_oxt", "repeated_oxt", "blank_ter", "many", "het_tail",
                           "mixed_na"])
        pp = {"scheme": sch}
        if sch in ("merged_oxt", "repeated_oxt") and i % 2 == 0:
            pp["nch"] = 3          # the smallest case with a second hidden chain end
        out.append({"kind": "run", "w": "topostress", "seed": seed * 50101 + i, "ff": ff, "opts": o, "extra_atoms": False,
                    "p": pp})
    # nucleic strands (RNA under both naming styles, DNA) with waters, half of them with --drop-water
    nn_ = 18 if tier == "quick" else 1500
    for i in range(nn_):
        ff = ["AMBER", "CHARMM", "PARSE", "TYL06"][i % 4]
        out.append({"kind": "run", "w": "synth", "seed": seed * 62003 + i, "ff": ff, "extra_atoms": False,
                    "opts": [f"--ff={ff}"] + (["--drop-water"] if i % 2 == 0 else []),
                    "p": {"na_prob": 1.0, "waters": [2, 4], "nchains": 1 + i % 2}})
    # --ligand runs: peptide + MOL2 ligand + waters, some of them with atoms no force field knows (four-site water
    # EPW, a stray hetero atom): whatever is not written must be reported
    nl = 18 if tier == "quick" else 1500
    for i in range(4 if tier == "quick" else 60):
        out.append({"kind": "big", "w": "big", "seed": seed * 8101 + i, "enc": ("cif", "pdb", "cif")[i % 3],
                    "ff": ["AMBER", "PARSE", "CHARMM", "SWANSON"][(seed + i) % 4]})
    out += [{"kind": "ligand", "seed": seed * 61001 + i, "ff": ["AMBER", "PARSE", "CHARMM"][i % 3], "w": "ligand",
             "opts": []} for i in range(nl)]
    nt = 36 if tier == "quick" else 5000
    for i in range(nt):
        out.append({"kind": "titr", "w": "synth", "seed": seed * 3001 + i, "ff": common.FFS[i % 6],
                    "p": {"maxlen": 6, "na": False, "waters": [0, 2], "variant_prob": 0.0, "pool": [
                        "ASP", "GLU", "HIS", "CYS", "TYR", "LYS", "ARG", "ALA", "SER", "GLY", "THR", "ASN"]}, "opts": []})
    return out


def add_extra_atoms(items, rng):
    """Junk atoms with names no topology knows, on standard residues (must be reported when deleted)."""
    out, added = [], []
    # a few junk atoms, or junk on (nearly) every residue - every single deletion has to be reported, the tenth and
    # the twentieth as much as the first
    dens = rng.choice([0.15, 0.15, 0.6, 1.0])
    for it in items:
        out.append(it)
        if isinstance(it, dict) and it["name"] == "CB" and rng.random() < dens:
            x = dict(it, name=rng.choice(["XX1", "QQ", "CX9"]), x=it["x"] + 0.9, y=it["y"] + 0.9, z=it["z"] + 0.9)
            out.append(x)
            added.append((it["chain"], it["resi"], x["name"]))
        elif isinstance(it, dict) and it["name"] == "CA" and it["rec"] == "ATOM" and dens >= 0.6 and rng.random() < dens:
            x = dict(it, name=rng.choice(["ZZ7", "QX2"]), x=it["x"] - 0.9, y=it["y"] + 0.8, z=it["z"] - 0.9)
            out.append(x)
            added.append((it["chain"], it["resi"], x["name"]))
    pdbfmt.renumber(out)
    return out, added


def norm_name(base, name):
    res, patches, _ = topo.load()
    d = res.get(base)
    if d is None:
        return name
    if name in d.alt:
        return d.alt[name]
    for p in ("NTERM", "CTERM", "NEUTRAL-CTERM", "ASH", "GLH"):
        if name in patches[p].alt:
            return patches[p].alt[name]
    return name


def reported(log, resi, name):
    for lv, _n, m in log:
        if lv >= logging.WARNING and name in m and str(resi) in m:
            return True
    return False


def check(res, spec, m, r, opts, titr_by_ord=None):
    pairs = match.match_residues(r.bio, m["items"], m["truth"])
    bonded, ambiguous = match.ss_truth(r.bio)
    missed = {id(a) for a in (r.missed or [])}
    written = match.written_atoms(r.bio, r.missed)
    pq = pipeline.parse_pqr(r.pqr_text)
    wit0 = {"ff": spec["ff"], "opts": spec["opts"], "seed": spec["seed"], "w": spec["w"]}
    # (2) final model = written (+) unassigned
    if len(pq) != len(written):
        res.violate("model/not-written-and-not-reported", f"{len(r.bio.atoms)} atoms in the final model, "
                    f"{len(r.missed or [])} reported unassigned, but {len(pq)} PQR atom lines", **wit0)
    else:
        for a, ln in zip(written, pq):
            if ln["name"] != a.name or ln["resi"] != a.res_seq:
                res.violate("model/written-line-mismatch", f"line {ln['line']!r} does not correspond to model atom "
                            f"{a.name} {a.res_seq}", **wit0)
                break
    # (2b) the final model is what the residues hold: every atom of every residue must be among the written or the
    #      reported-unassigned atoms (the atom list the writer walks is a second view of the same model)
    wid = {id(a) for a in written}
    lost = [(str(rr), a.name) for rr in r.bio.residues for a in rr.atoms if id(a) not in wid and id(a) not in missed]
    res.count("model_atoms_traced", sum(len(rr.atoms) for rr in r.bio.residues))
    if lost:
        res.violate("model/residue-atoms-neither-written-nor-reported", f"{len(lost)} atoms of the final model are "
                    f"neither written nor reported unassigned, e.g. {lost[:4]}", **wit0)
    # input atoms per truth ordinal
    idx, nblocks = match.input_index(m["items"])
    inp = {}
    for (xyz, (ordinal, name, resi)) in idx.items():
        inp.setdefault(ordinal, []).append(name)
    tord = {id(t): k for k, t in enumerate(m["truth"])}
    for residue, tr in pairs:
        if tr is None:
            res.count("residues_unmatched")
            continue
        k = tord[id(tr)]
        names = [a.name for a in residue.atoms]
        nameset = set(names)
        pos = "I" if tr.get("cyclic") else tr["pos"]
        wit = dict(wit0, residue=f"{tr['resn']} {tr['chain']} {tr['resi']}", position=pos)
        res.count("residues_checked")
        # duplicates / placeholders
        dup = [n for n, c in Counter(names).items() if c > 1]
        if dup:
            res.violate("residue/duplicate-atom-names", f"{dup} appear twice in {tr['resn']} {tr['resi']}", **wit)
        bad = [n for n in names if n.endswith("FLIP") or n.startswith("LP")]
        if bad:
            res.violate("residue/placeholder-atom-left", f"{bad} left in {tr['resn']} {tr['resi']}", **wit)
        if tr["kind"] not in ("aa", "na", "wat"):
            continue
        base = tr["base"] if tr["kind"] == "aa" else topo.NUCLEIC_BASE.get(tr["resn"], tr["resn"]) if tr["kind"] == "na" \
            else "WAT"
        # (1) input heavy atoms
        for raw in inp.get(k, []):
            n = norm_name(base, raw)
            if n.startswith("H") or raw.lstrip("0123456789").startswith("H"):
                continue
            res.count("input_heavy_atoms_traced")
            if n in nameset:
                continue
            if tr["kind"] == "na" and pos in ("N", "NC") and n in ("P", "O1P", "O2P", "OP1", "OP2"):
                continue
            if reported(r.log, tr["resi"], raw) or reported(r.log, tr["resi"], n):
                res.count("reported_deletions")
                continue
            ev = [e for e in EV["removed"] if e["resi"] == tr["resi"] and e["name"] in (raw, n)]
            res.violate("input-heavy-atom/lost-without-report", f"input atom {raw} of {tr['resn']} {tr['resi']} is not in "
                        f"the final model and no warning names it (removed by {[e['by'] for e in ev][:3]})", **wit)
        # (3) atom set of fully parameterised residues
        if not opts.adds_atoms or id(residue) in ambiguous:
            continue
        full = all(a.ffcharge is not None and id(a) not in missed for a in residue.atoms)
        if not full:
            res.count("residues_not_fully_parameterised")
            continue
        ss = id(residue) in bonded
        titr = (titr_by_ord or {}).get(k, ())
        try:
            must, choose = states.expected_atoms(tr, nameset, opts, ss, titr)
        except KeyError:
            continue
        if must is None:
            continue
        res.count("atom_set_checks")
        st = states.ff_name(tr, nameset, opts, ss, titr)
        res.cell(spec["ff"], st, pos)
        allowed = set(must)
        problems = []
        for alts, n in choose:
            allowed |= alts
            have = len(nameset & alts)
            if have != n:
                problems.append(f"{have} of {sorted(alts)} present, expected {n}")
        missing = sorted(must - nameset)
        extra = sorted(nameset - allowed)
        if missing:
            problems.append(f"missing {missing}")
        if extra:
            problems.append(f"unexpected {extra}")
        if problems:
            kind = "hydrogen-missing" if missing and all(x.startswith("H") for x in missing) and not extra else \
                "atom-set-differs"
            res.violate(f"atom-set/{kind}/{tr['base'] if tr['kind'] == 'aa' else tr['kind']}@{pos}",
                        f"{tr['resn']} {tr['resi']} in state {st}: " + "; ".join(problems), **wit)
    if EV["removed"] or any(getattr(a, "added", 0) for a in r.bio.atoms):
        res.nt(spec["ff"], tuple(spec["opts"]), spec["seed"])


def run_ligand(spec, res):
    """Conservation clause on --ligand runs: every atom of the final model is written or reported unassigned."""
    from ..gen import mol2gen
    from ..gen import structures as S
    from .c16 import het_residue
    import numpy as np
    rng = random.Random(spec["seed"])
    mol = mol2gen.random_molecule(rng, 1, 5)
    mol["atoms"] = [a for a in mol["atoms"] if not a["name"].endswith(("X0", "X1"))]     # no salts here
    # ligand atom names that cannot collide with water atom names
    for a in mol["atoms"]:
        if a["name"] in ("O", "H1", "H2"):
            a["name"] = "L" + a["name"]
    lig_text = mol2gen.write(mol)
    pep = S.peptide(S.random_sequence(rng, rng.randint(3, 5), pool=["ALA", "GLY", "SER", "LEU", "LYS", "ASP", "THR"]), rng)
    c0 = S.centroid(pep)
    wat = [S.water(c0 + np.array([0, -12.0 - 4 * k, 0]), rng, spread=1.0, with_h=2) for k in range(rng.randint(1, 3))]
    # a four-site water as written by simulation packages, and sometimes a water with a stray atom
    w4 = S.water(c0 + np.array([0, 14.0, 0]), rng, spread=1.0, with_h=2)
    w4["atoms"] = w4["atoms"] + [("EPW", w4["atoms"][0][1] + np.array([0.1, 0.1, 0.0]))]
    wat.append(w4)
    entries = [{"id": "A", "start": 1, "residues": pep},
               {"id": rng.choice(["A", "L"]), "start": 301, "residues": [het_residue(mol, "LIG", c0 + np.array([25.0, 0, 0]))]},
               {"id": "W", "start": 401, "residues": wat}]
    items, truth = S.assemble(entries)
    text = pdbfmt.to_text(items)
    opts = [f"--ff={spec['ff']}", "--ligand={dir}/lig.mol2"] + rng.choice([[], ["--noopt"]])
    r = pipeline.run(text, opts, extra_files={"lig.mol2": lig_text}, workname="c03")
    res.count("runs")
    if not r.ok:
        res.count("runs_failed")
        res.note(f"ligand run failed: {type(r.exc).__name__} {str(r.exc)[:60]}")
        return
    res.count("runs_ok")
    res.count("ligand_runs")
    missed = {id(a) for a in (r.missed or [])}
    pq = pipeline.parse_pqr(r.pqr_text)
    written_keys = Counter((ln["name"], ln["resi"]) for ln in pq)
    lost = []
    for rr in r.bio.residues:
        for a in rr.atoms:
            res.count("model_atoms_traced")
            if id(a) in missed:
                continue
            if written_keys.get((a.name, a.res_seq), 0) > 0:
                written_keys[(a.name, a.res_seq)] -= 1
                continue
            lost.append((str(rr), a.name))
    res.nt("ligand", spec["ff"], tuple(opts[2:]), len(mol["atoms"]))
    res.cell("ligand", spec["ff"])
    if lost:
        res.violate("model/residue-atoms-neither-written-nor-reported/ligand-run", f"{len(lost)} atoms of the final "
                    f"model are neither written nor reported unassigned, e.g. {lost[:4]}", ff=spec["ff"], opts=opts,
                    seed=spec["seed"])
    res.sample = {"kind": "ligand", "ff": spec["ff"], "lines": len(pq), "reported_unassigned": len(missed)}


def run_big(spec, res):
    """A structure whose *output* has more than 9999 atoms (a peptide in a box of waters), read from PDB or mmCIF:
    serial numbers fill their field (HETATM10000), and every atom of the final model must still be written."""
    import numpy as np
    from ..gen import cifwriter
    from ..gen import structures as S
    rng = random.Random(spec["seed"])
    pep = S.peptide([rng.choice(["ALA", "SER", "LYS", "GLY", "ASP", "THR"]) for _ in range(rng.randint(2, 5))], rng)
    nw = rng.randint(3330, 3420)
    side = int(round(nw ** (1 / 3))) + 1
    wat = []
    for k in range(nw):
        i, j, l = k % side, (k // side) % side, k // (side * side)
        wat.append({"resn": "HOH", "kind": "wat", "atoms": [("O", np.array([40.0 + 7.3 * i, 40.0 + 7.3 * j, 40.0 + 7.3 * l]))]})
    items, truth = S.assemble([{"id": "A", "start": 1, "residues": pep},
                               {"id": rng.choice(["W", "A"]), "start": 201, "residues": wat}])
    enc = spec["enc"]
    if enc == "cif":
        text, suffix = cifwriter.write(items, layout=rng.choice(["wwpdb", "short"]), rng=rng), ".cif"
    else:
        text, suffix = pdbfmt.to_text(items), ".pdb"
    opts = [f"--ff={spec['ff']}", "--noopt", "--nodebump"] + rng.choice([[], [], ["--whitespace"], ["--keep-chain"]])
    r = pipeline.run(text, opts, suffix=suffix, workname="c03")
    res.count("runs")
    if not r.ok:
        res.count("runs_failed")
        res.note(f"big {enc} {opts} failed: {type(r.exc).__name__} {str(r.exc)[:60]}")
        return
    res.count("runs_ok")
    wit0 = {"ff": spec["ff"], "opts": opts, "seed": spec["seed"], "w": f"big-{enc}", "waters": nw}
    missed = {id(a) for a in (r.missed or [])}
    written = match.written_atoms(r.bio, r.missed)
    pq = pipeline.parse_pqr(r.pqr_text, whitespace="--whitespace" in opts)
    if len(written) >= 10000:
        res.count("big_outputs_over_9999_atoms")
        res.nt("big", enc, spec["ff"], tuple(opts[3:]))
    res.cell("big", enc, tuple(opts[3:]))
    if len(pq) != len(written):
        res.violate("model/not-written-and-not-reported", f"{len(r.bio.atoms)} atoms in the final model, "
                    f"{len(r.missed or [])} reported unassigned, but {len(pq)} PQR atom lines", **wit0)
    else:
        for a, ln in zip(written, pq):
            if ln["name"] != a.name or ln["resi"] != a.res_seq:
                res.violate("model/written-line-mismatch", f"line {ln['line']!r} does not correspond to model atom "
                            f"{a.name} {a.res_seq}", **wit0)
                break
    wid = {id(a) for a in written}
    lost = [(str(rr), a.name) for rr in r.bio.residues for a in rr.atoms if id(a) not in wid and id(a) not in missed]
    res.count("model_atoms_traced", sum(len(rr.atoms) for rr in r.bio.residues))
    if lost:
        res.violate("model/residue-atoms-neither-written-nor-reported", f"{len(lost)} atoms of the final model are "
                    f"neither written nor reported unassigned, e.g. {lost[:4]}", **wit0)
    # every input water must be in the output with its hydrogens
    nwat_out = sum(1 for ln in pq if ln["resn"] in ("HOH", "WAT") and ln["name"] == "O")
    if nwat_out != nw:
        res.violate("model/input-water-vanished", f"{nw} waters in the input, {nwat_out} water oxygens written", **wit0)
    res.sample = {"kind": "big", "enc": enc, "opts": opts, "atoms_written": len(pq)}


def run_case(spec):
    install()
    res = Res()
    if spec["kind"] == "ligand":
        run_ligand(spec, res)
        return res
    if spec["kind"] == "big":
        run_big(spec, res)
        return res
    m = workload.materialise(spec)
    rng = random.Random(spec["seed"] + 11)
    if spec.get("extra_atoms"):
        m["items"], _added = add_extra_atoms(m["items"], rng)
        m["text"] = pdbfmt.to_text(m["items"])
    elif spec["kind"] == "run" and _altloc_case(spec["seed"]):
        # alternate locations on some atoms (first location counts); the ground truth is the file's first model with
        # the first location of every atom, read back by the column reader
        from ..gen import pdbtext
        text, _info = pdbtext.apply(m["items"], [rng.choice(["altloc_interleaved", "altloc_blocked", "models", "models"])], rng)
        m = dict(m, text=text, items=pdbfmt.first_altloc(pdbfmt.read_first_model(text)))
        res.count("altloc_inputs")
    opts_list = list(spec["opts"])
    titr_by_ord = None
    if spec["kind"] == "titr":
        from . import c06
        c06.install()
        ph = round(rng.uniform(0, 14), 2)
        rows, groups = c06.make_table(m["truth"], rng, ph)
        model = None
        c06.STUB["table"] = rows
        opts_list = [f"--ff={spec['ff']}", "--titration-state-method=propka", f"--with-ph={ph}"]
        spec = dict(spec, opts=opts_list)
    del EV["removed"][:]
    EV["branches"].clear()
    try:
        r = pipeline.run(m["text"], opts_list, workname="c03")
    finally:
        if spec["kind"] == "titr":
            from . import c06
            c06.STUB["table"] = None
    res.count("runs")
    if not r.ok:
        res.count("runs_failed")
        res.note(f"{spec['ff']} {opts_list} failed: {type(r.exc).__name__} {str(r.exc)[:60]}")
        return res
    res.count("runs_ok")
    res.count("remove_atom_events", len(EV["removed"]))
    for b, n in EV["branches"].items():
        res.count(f"branch:{b}", n)
        res.cell("branch", b)
    opts = states.Opts(opts_list)
    if spec["kind"] == "titr":
        # titration patches are read off the result through the C06 state observer (the C06 check judges them)
        from . import c06
        pairs = match.match_residues(r.bio, m["items"], m["truth"])
        tord = {id(t): k for k, t in enumerate(m["truth"])}
        titr_by_ord = {}
        for residue, tr in pairs:
            if tr is None or tr["kind"] != "aa":
                continue
            t = []
            for g in ([tr["base"]] if tr["base"] in c06.GROUPS else []) + (["N+"] if tr["pos"] in ("N", "NC") else []) + \
                    (["C-"] if tr["pos"] in ("C", "NC") else []):
                o = c06.observed_state(g, residue)
                if o and o != "default":
                    t.append(o)
            titr_by_ord[tord[id(tr)]] = tuple(t)
    check(res, spec, m, r, opts, titr_by_ord)
    res.sample = {"ff": spec["ff"], "opts": opts_list, "w": spec["w"], "removed_events": EV["removed"][:4],
                  "branches": dict(EV["branches"])}
    return res


def finalize(agg, tier):
    n = sum(1 for c in agg["cells"] if c.startswith("branch|"))
    agg["counters"]["optimisation_branches_entered"] = n
    need = BRANCHES_REQUIRED[tier]
    return [f"only {n} optimisation branches were entered (< {need})"] if n < need else []


def setup_worker():
    logging.getLogger().setLevel(logging.WARNING)
