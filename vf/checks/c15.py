"""C15 - rigid-body fitting reproduces exact placements; torsion setting is exact.

Direct drive of the real quatfit.find_coordinates / qchichange / Debump.set_dihedral_angle /
Residue.rotate_tetrahedral against numpy SVD-Kabsch / Rodrigues / dihedral references.
"""
import math
import random

import numpy as np

from .. import common
from ..gen import pdbfmt
from ..gen import structures as S
from ..mon import build, torsion
from ..ref import rigid
from ..ref import topology as topo
from ..run import Res

ID = "C15"
LEVEL = "exploration"
EVAL_COUNTER = "fit_calls"
RULE = ("fit cases: random/templated point sets (3-6 non-collinear points, triangle area > 0.05 A^2) x random proper "
        "rigid motions (uniform, near-identity, 180-degree, axis-aligned; translations up to 1e5 A); a call is "
        "non-trivial when the placed atom is > 0.1 A off the plane of the first three anchors (mirror image would "
        "differ) - distinct = (class of rotation, class of translation, point source, n points). torsion cases: "
        "every residue type x chain position x dihedral x random target angle on synthetic peptides built through "
        "the real stage sequence; distinct = (residue, position, dihedral index, angle class)")
ASSUMPTIONS = ["numpy SVD (LAPACK) is the trusted reference for the best-fit proper rotation",
               "point sets with triangle area <= 0.05 A^2 are excluded as degenerate (property: non-collinear)"]
MIN = {"quick": {"fit_calls": 15000, "equivariance_checks": 3000, "torsion_calls": 1500, "tetra_calls": 150, "postrun_structures": 5, "postrun_torsion_calls": 150, "flat_side_chains": 15},
       "thorough": {"fit_calls": 500000, "equivariance_checks": 100000, "torsion_calls": 40000,
                    "tetra_calls": 3000, "postrun_structures": 250, "postrun_torsion_calls": 8000, "flat_side_chains": 600}}


def cases(tier, seed):
    nfit, per, ntor = (16, 1500, 16) if tier == "quick" else (256, 25000, 1200)
    out = [{"kind": "fit", "seed": seed * 1000 + i, "n": per} for i in range(nfit)]
    out += [{"kind": "torsion", "seed": seed * 1000 + i} for i in range(ntor)]
    # multi-step sequences: torsions requested on the biomolecule a full run returned (hydrogens built, side chains
    # flipped / hydroxyls re-placed by the optimiser), after a fresh debumper refreshed the stored angles; and after
    # coordinates were restored from a snapshot
    npost = 8 if tier == "quick" else 400
    out += [{"kind": "postrun", "seed": seed * 1000 + 500 + i} for i in range(npost)]
    return out


def _rot(rng, cls):
    if cls == "uniform":
        return rigid.random_rotation(rng)
    axis = np.array([rng.gauss(0, 1) for _ in range(3)])
    if cls == "near_identity":
        return rigid.rodrigues(axis, rng.uniform(-1e-3, 1e-3))
    if cls == "near_180":
        return rigid.rodrigues(axis, 180.0 + rng.choice([0.0, 1e-7, -1e-4, 0.01]))
    if cls == "axis_aligned":
        return rigid.rodrigues(np.eye(3)[rng.randrange(3)], rng.choice([0, 90, 180, 270, 120, 60]))
    raise ValueError(cls)


def _points(rng, src):
    """(anchor template points, template point to place)"""
    if src == "template":
        res, _, _ = topo.load()
        while True:
            d = res[rng.choice(list(res))]
            an = rng.choice(list(d.atoms))
            bonds = []
            for b in d.atoms[an]["bonds"]:
                if b in d.atoms and b not in bonds:
                    bonds.append(b)
            for b in list(bonds):
                for b2 in d.atoms[b]["bonds"]:
                    if b2 in d.atoms and b2 != an and b2 not in bonds:
                        bonds.append(b2)
            for b in list(bonds):
                for b3 in d.atoms[b]["bonds"]:
                    if b3 in d.atoms and b3 != an and b3 not in bonds:
                        bonds.append(b3)
            if len(bonds) >= 3:
                pts = np.array([d.atoms[b]["xyz"] for b in bonds[:3]], float)
                if rigid.triangle_area(*pts) > 0.05:
                    return pts, np.array(d.atoms[an]["xyz"], float)
    n = 3 if src == "random3" else rng.randrange(4, 7)
    scale = rng.choice([1.0, 1.5, 3.0, 10.0])
    while True:
        pts = np.array([[rng.uniform(-scale, scale) for _ in range(3)] for _ in range(n)])
        if rigid.triangle_area(*pts[:3]) > 0.05 and min(
                np.linalg.norm(pts[i] - pts[j]) for i in range(n) for j in range(i)) > 0.3:
            break
    x = np.array([rng.uniform(-scale, scale) for _ in range(3)])
    return pts, x


def run_fit(spec, res):
    from pdb2pqr import quatfit
    rng = random.Random(spec["seed"])
    for k in range(spec["n"]):
        rc = rng.choice(["uniform", "uniform", "near_identity", "near_180", "axis_aligned"])
        tc = rng.choice(["zero", "small", "large", "huge"])
        src = rng.choice(["template", "template", "random3", "randomN"])
        P, x = _points(rng, src)
        R = _rot(rng, rc)
        mag = {"zero": 0.0, "small": 50.0, "large": 5000.0, "huge": 1e5}[tc]
        t = np.array([rng.uniform(-mag, mag) for _ in range(3)])
        Q = P @ R.T + t
        want = R @ x + t
        # the caller's list objects are kept and re-used below, as code that places several atoms from one collected
        # template / structure pair does
        Ql, Pl, xl = Q.tolist(), P.tolist(), x.tolist()
        got = np.array(quatfit.find_coordinates(len(P), Ql, Pl, xl))
        res.count("fit_calls")
        err = float(np.linalg.norm(got - want))
        # off-plane distance of x (mirror-sensitive)
        nrm = np.cross(P[1] - P[0], P[2] - P[0])
        off = abs(float(np.dot(x - P[0], nrm / np.linalg.norm(nrm))))
        if off > 0.1:
            res.nt("fit", rc, tc, src, len(P))
            res.count("fit_mirror_sensitive")
        res.cell("fit", rc, tc, src)
        if err > 1e-6:
            mirror = want - 2 * np.dot(R @ (x - P[0]), R @ nrm / np.linalg.norm(nrm)) * (R @ nrm / np.linalg.norm(nrm))
            kind = "mirror-image" if np.linalg.norm(got - mirror) < 1e-4 and len(P) == 3 else "inexact"
            res.violate(f"fit/{kind}", f"find_coordinates off by {err:.3e} A ({rc},{tc},{src},n={len(P)})",
                        P=P.tolist(), Q=Q.tolist(), x=x.tolist(), got=got.tolist(), want=want.tolist())
            continue
        if k % 3 == 0:
            # second placement from the very same list objects must reproduce the first
            again = np.array(quatfit.find_coordinates(len(P), Ql, Pl, xl))
            res.count("repeat_calls_same_lists")
            e_again = float(np.linalg.norm(again - want))
            if e_again > 1e-6:
                res.violate("fit/second-call-on-same-lists-differs", f"calling find_coordinates again with the same list "
                            f"objects is off by {e_again:.3e} A (first call {err:.1e})", P=P.tolist(), Q=Q.tolist(),
                            x=x.tolist())
                continue
        if k % 4 == 0:
            R2 = rigid.random_rotation(rng)
            t2 = np.array([rng.uniform(-100, 100) for _ in range(3)])
            # the template list object is re-used for the moved structure
            got2 = np.array(quatfit.find_coordinates(len(P), (Q @ R2.T + t2).tolist(), Pl, xl))
            res.count("equivariance_checks")
            e2 = float(np.linalg.norm(got2 - (R2 @ got + t2)))
            if e2 > 2e-6:
                res.violate("fit/non-equivariant", f"result does not move with the structure: {e2:.3e} A",
                            P=P.tolist(), Q=Q.tolist(), x=x.tolist())
        if k % 5 == 0:
            # qchichange against Rodrigues, on the magnitude (sign convention is decided by the torsion clause)
            axis = np.array([rng.gauss(0, 1) for _ in range(3)]) * rng.choice([0.3, 1.0, 4.0])
            ang = rng.choice([rng.uniform(-720, 720), rng.choice([0, 5, 60, 120, 180, -180, 360, 90])])
            pts = [[rng.uniform(-5, 5) for _ in range(3)] for _ in range(4)]
            out = np.array(quatfit.qchichange(axis.tolist(), pts, ang))
            res.count("qchichange_calls")
            ref_p = np.array(pts) @ rigid.rodrigues(axis, ang).T
            ref_m = np.array(pts) @ rigid.rodrigues(axis, -ang).T
            e = min(np.abs(out - ref_p).max(), np.abs(out - ref_m).max())
            if e > 1e-9:
                res.violate("qchichange/not-axis-rotation", f"qchichange differs from Rodrigues by {e:.3e}",
                            axis=axis.tolist(), angle=ang, pts=pts)
    res.sample = {"kind": "fit", "seed": spec["seed"], "calls": spec["n"],
                  "last": {"anchors_template": P.tolist(), "rotation_class": rc, "translation": t.tolist(),
                           "placed": got.tolist(), "error_A": err}}


def run_torsion(spec, res):
    from pdb2pqr.residue import Residue
    rng = random.Random(spec["seed"])
    seq = list(topo.AMINO)
    rng.shuffle(seq)
    # make sure every residue type reaches every chain position across seeds
    k = spec["seed"] % len(seq)
    seq = seq[k:] + seq[:k]
    chain_a = S.peptide(seq[:10], rng)
    chain_b = S.peptide(seq[10:], rng)
    S.scatter([chain_a, chain_b], rng)
    items, truth = S.assemble([{"id": "A", "start": 1, "residues": chain_a},
                               {"id": "B", "start": 1, "residues": chain_b}])
    # some long side chains are laid out as an exactly planar all-trans zig-zag in a lattice plane (z identical to
    # three decimals, as in idealised or 2D-drawn coordinates): the torsion's handedness product is exactly zero
    order = {"LYS": ["CB", "CG", "CD", "CE", "NZ"], "ARG": ["CB", "CG", "CD", "NE", "CZ"], "MET": ["CB", "CG", "SD", "CE"],
             "GLU": ["CB", "CG", "CD", "OE1"], "GLN": ["CB", "CG", "CD", "OE1"], "ILE": ["CB", "CG1", "CD1"],
             "LEU": ["CB", "CG", "CD1"]}
    byres = {}
    for it in items:
        if isinstance(it, dict):
            byres.setdefault((it["chain"], it["resi"]), {})[it["name"]] = it
    for key, atoms in byres.items():
        resn = next(iter(atoms.values()))["resn"]
        if resn in order and rng.random() < 0.5 and all(n in atoms for n in order[resn] + ["CA"]):
            ca = atoms["CA"]
            axis = rng.choice("xyz")
            u, v = [a for a in "xyz" if a != axis]
            for k, n in enumerate(order[resn]):
                atoms[n][axis] = ca[axis]
                atoms[n][u] = round(ca[u] + 1.25 * (k + 1), 3)
                atoms[n][v] = round(ca[v] + (0.88 if k % 2 == 0 else 0.0), 3)
            res.count("flat_side_chains")
    bio, deb, _ = build.biomolecule_from_text(pdbfmt.to_text(items))
    tcalls = 0
    for residue, tr in zip(bio.residues, truth):
        for anglenum, dname in enumerate(residue.reference.dihedrals):
            names = dname.split()
            if not all(residue.has_atom(n) for n in names) or residue.dihedrals[anglenum] is None:
                continue
            for _ in range(5):
                angle = rng.choice([rng.uniform(-720, 720), rng.uniform(-180, 180),
                                    float(rng.choice([0, 5, 60, 120, 180, -180, -120, 175, 360]))])
                before = torsion.snapshot(residue)
                deb.set_dihedral_angle(residue, anglenum, angle)
                after = torsion.snapshot(residue)
                tcalls += 1
                res.count("torsion_calls")
                cls = "multiple60" if angle % 60 == 0 else "wrapped" if abs(angle) > 180 else "generic"
                res.nt("torsion", tr["base"], tr["pos"], anglenum, cls)
                res.cell("torsion", tr["base"], tr["pos"], anglenum)
                for clause, mech, detail in torsion.check_torsion_change(residue, names, angle, before, after):
                    if clause in ("angle", "axisdist"):
                        res.violate(f"torsion/{mech}", f"{residue} {dname}: {detail}", seq=seq, residue=str(residue),
                                    dihedral=dname, angle=angle)
                # the code's own record of the angle must agree with an independent measurement
                rec = residue.dihedrals[anglenum]
                P = [after[n] for n in names]
                meas = rigid.dihedral(*P)
                if rigid.angdiff(rec, meas) > 0.05:
                    res.violate("torsion/recorded-angle", f"{residue} {dname}: recorded {rec} measured {meas}",
                                residue=str(residue))
        # tetrahedral rotations on every methyl / ammonium group present
        for atom in list(residue.atoms):
            hs = [b for b in atom.bonds if b.name.startswith("H") and b.residue is residue]
            heavy = [b for b in atom.bonds if not b.name.startswith("H") and b.residue is residue]
            if len(hs) == 3 and len(heavy) == 1:
                ang = rng.choice([120.0, -120.0, 60.0, rng.uniform(-360, 360)])
                before = torsion.snapshot(residue)
                Residue.rotate_tetrahedral(heavy[0], atom, ang)
                after = torsion.snapshot(residue)
                res.count("tetra_calls")
                res.nt("tetra", tr["base"], atom.name, "120" if abs(ang) == 120 else "generic")
                for clause, mech, detail in torsion.check_axis_rotation(before, after, heavy[0].name, atom.name, ang,
                                                                        {h.name for h in hs}):
                    if clause in ("angle", "axisdist"):
                        res.violate(f"tetra/{mech}", f"{residue} {atom.name}: {detail}", residue=str(residue))
    res.sample = {"kind": "torsion", "seed": spec["seed"], "sequence": seq, "torsion_calls": tcalls}


def run_postrun(spec, res):
    from pdb2pqr.debump import Debump
    from .. import pipeline
    rng = random.Random(spec["seed"])
    pool = ["HIS", "ASN", "GLN", "SER", "THR", "TYR", "ILE", "LYS", "ARG", "GLU", "ASP", "MET", "LEU", "TRP", "CYS", "PHE"]
    seq = [rng.choice(pool) for _ in range(rng.randint(5, 9))]
    pep = S.peptide(seq, rng)
    wat = [S.water(S.centroid(pep), rng, spread=6.0) for _ in range(rng.randint(0, 4))]
    items, truth = S.assemble([{"id": "A", "start": 1, "residues": pep}] + ([{"id": "W", "start": 201, "residues": wat}]
                                                                            if wat else []))
    ff = rng.choice(common.FFS)
    r = pipeline.run(pdbfmt.to_text(items), [f"--ff={ff}"] + rng.choice([[], [], ["--nodebump"]]), workname="c15")
    if not r.ok:
        res.count("postrun_failed")
        return
    bio = r.bio
    deb = Debump(bio)
    from pdb2pqr.cells import Cells
    deb.cells = Cells(2)
    deb.cells.assign_cells(bio)
    # the code's own protocol before any torsion work (debump_biomolecule, initialize_*_optimization): refresh the
    # stored angles from the coordinates
    bio.calculate_dihedral_angles()
    bio.set_donors_acceptors()
    bio.update_internal_bonds()
    bio.set_reference_distance()
    res.count("postrun_structures")
    for residue in bio.residues:
        ref = getattr(residue, "reference", None)
        if ref is None or not hasattr(residue, "dihedrals"):
            continue
        for anglenum, dname in enumerate(ref.dihedrals):
            names = dname.split()
            if anglenum >= len(residue.dihedrals) or residue.dihedrals[anglenum] is None or \
                    not all(residue.has_atom(n) for n in names):
                continue
            for step in range(3):
                if step == 1:
                    # coordinates put back from a snapshot, then the stored angles refreshed again
                    for a in residue.atoms:
                        a.x, a.y, a.z = snap[a.name]
                    bio.calculate_dihedral_angles()
                angle = rng.choice([rng.uniform(-180, 180), float(rng.choice([0, 60, -60, 120, 180, -120]))])
                snap = {a.name: (a.x, a.y, a.z) for a in residue.atoms}
                before = torsion.snapshot(residue)
                deb.set_dihedral_angle(residue, anglenum, angle)
                after = torsion.snapshot(residue)
                res.count("torsion_calls")
                res.count("postrun_torsion_calls")
                res.nt("postrun", residue.name, anglenum, step)
                res.cell("postrun", residue.name, anglenum)
                for clause, mech, detail in torsion.check_torsion_change(residue, names, angle, before, after):
                    if clause in ("angle", "axisdist"):
                        res.violate(f"torsion/{mech}/after-full-run", f"{residue} {dname} (step {step}): {detail}",
                                    residue=str(residue), dihedral=dname, angle=angle, seq=seq, ff=ff, seed=spec["seed"])
    res.sample = {"kind": "postrun", "seed": spec["seed"], "sequence": seq}


def setup_worker():
    build.quiet()


def run_case(spec):
    res = Res()
    if spec["kind"] == "fit":
        run_fit(spec, res)
    elif spec["kind"] == "postrun":
        run_postrun(spec, res)
    else:
        run_torsion(spec, res)
    return res
