"""C14 - neighbour search returns every atom within range.

Layer 1: the real Cells driven through its API by random add/remove/move histories vs brute force.
Layer 2/3: every get_near_cells call made inside whole-pipeline runs vs brute force over the atoms the
biomolecule owns at that moment (misses and ghosts, keyed by call site), plus find_nearby_atoms re-evaluated with
an all-atoms stub.
"""
import math
import random

from .. import pipeline
from ..gen import workload
from ..mon import pkastub, cellmon
from ..run import Res

ID = "C14"
LEVEL = "exploration"
EVAL_COUNTER = "queries_total"
RULE = ("stress cases: random histories of add/remove/move/query on the real Cells (sizes 2 and 5) over point sets "
        "with negative, zero, exact cell-boundary (k*size, k*size +- 1e-9), huge and clustered coordinates; a history "
        "is non-trivial when it contains moves across a cell boundary and boundary/negative coordinates; distinct = "
        "(size, coordinate class mix, history seed). pipeline cases: generated structures (dense packing, waters, "
        "damaged side chains) run end to end with the in-vivo monitor on every neighbour query; distinct = "
        "(call site, cell size) pairs with at least one query plus distinct structures"
        ' Round-2 additions: long real stretches; pKa route (hydrogens removed and rebuilt between the debump passes) on inputs that already carry hydrogens.'
        " Round-3/4 additions: the monitor's reference population no longer depends on Cells.assign_cells (falls back to the biomolecule of the run in progress)."
        " Round-7 additions: distinct atoms with identical labels (stress histories reusing names; solvent whose numbering repeats).")
ASSUMPTIONS = ["brute force over the atoms currently owned by residues is the ground truth for 'every atom'",
               "a query is judged at the moment it is made (under the code's own single thread)"]
MIN = {"quick": {"stress_queries": 20000, "invivo_queries": 6000, "stress_moves_across_cells": 500, "pka_route_runs": 6, "runs_with_repeating_water_labels": 5, "scan_steps_single_atom_torsion": 50},
       "thorough": {"stress_queries": 600000, "invivo_queries": 150000, "stress_moves_across_cells": 20000, "pka_route_runs": 300, "runs_with_repeating_water_labels": 300, "scan_steps_single_atom_torsion": 2500}}
SHARDS_PER_JOB = 4


def cases(tier, seed):
    ns, npipe = (32, 96) if tier == "quick" else (2000, 5000)
    out = [{"kind": "stress", "seed": seed * 100000 + i, "size": (2, 5)[i % 2]} for i in range(ns)]

    def opts(rng, spec):
        o = [f"--ff={spec['ff']}"]
        if rng.random() < 0.15:
            o.append("--noopt")
        if rng.random() < 0.1:
            o.append("--nodebump")
        if rng.random() < 0.2:
            # the pKa route (stubbed pKa source): hydrogens removed and rebuilt between the two debumping passes
            o += pkastub.titration_opts(rng)
        return o

    for spec in workload.standard_cases(tier, seed, npipe, npipe, opts_fn=opts, frag_share=0.4,
                                        p={"dense_prob": 0.8, "damage_prob": 0.25, "crowd_prob": 0.25, "waters": [0, 3, 6, 10],
                                           "hydrogens": ["none", "none", "all", "some"], "water_repeat_prob": 0.3,
                                           "na_prob": 0.08}):
        spec["kind"] = "pipe"
        out.append(spec)
    for spec in workload.long_cases(seed, 7 if tier == "quick" else 210, opts_fn=opts,
                                    long_max=60 if tier == "quick" else 400):
        spec["kind"] = "pipe"
        out.append(spec)
    nstress = 8 if tier == "quick" else 1500
    for i in range(nstress):
        ff = common.FFS[i % 6] if False else ["AMBER", "CHARMM", "PARSE", "TYL06", "PEOEPB", "SWANSON"][i % 6]
        out.append({"kind": "pipe", "w": "synth", "seed": seed * 920001 + i, "ff": ff, "opts": [f"--ff={ff}"],
                    "p": {"crowd_prob": 0.6, "crowd_heavy_prob": 1.0, "minlen": 5, "maxlen": 9, "na": False, "waters": [0, 3],
                          "hydrogens": ["none"], "pool": ["ARG", "LYS", "GLU", "GLN", "MET", "ILE", "LEU", "TRP", "PHE",
                                                          "TYR", "HIS", "ASN", "ASP", "THR", "SER"]}})
    out += [{"kind": "scan", "seed": seed * 950017 + i, "ff": ["AMBER", "PARSE", "CHARMM"][i % 3]}
            for i in range(8 if tier == "quick" else 400)]
    # torsions that move a single atom (hydroxyl / thiol hydrogens, which the debumper scans itself under --noopt; a lone
    # rebuilt OG / SG): the atom is re-registered many times in a row, often without leaving its cell
    for i in range(12 if tier == "quick" else 1200):
        ff = ["AMBER", "CHARMM", "PARSE", "TYL06", "PEOEPB", "SWANSON"][i % 6]
        out.append({"kind": "pipe", "w": "synth", "seed": seed * 940013 + i, "ff": ff,
                    "opts": [f"--ff={ff}"] + ([] if i % 4 == 3 else ["--noopt"]),
                    "p": {"crowd_prob": 0.5, "carbon_obstacle_prob": 1.0, "damage_prob": 0.3 if i % 2 else 0.0,
                          "minlen": 5, "maxlen": 8, "na": False, "waters": [0, 2], "hydrogens": ["none"],
                          "pool": ["SER", "THR", "TYR", "CYS", "SER", "THR", "ALA", "GLY"]}})
    # acid-rich, densely packed, hydrated structures through the pKa route: protonated carboxylic acids whose hydroxyl
    # hydrogen is tried on either oxygen (atoms appear, move and disappear between queries)
    nacid = 12 if tier == "quick" else 1500
    rnga = random.Random(seed * 97 + 3)
    for i in range(nacid):
        ff = ["AMBER", "CHARMM", "PARSE", "TYL06", "PEOEPB", "SWANSON"][i % 6]
        out.append({"kind": "pipe", "w": "synth", "seed": seed * 930011 + i, "ff": ff,
                    "opts": [f"--ff={ff}"] + pkastub.titration_opts(rnga),
                    "p": {"dense_prob": 1.0, "minlen": 4, "maxlen": 8, "na": False, "waters": [3, 6, 10],
                          "hydrogens": ["none", "none", "all"], "carboxyl_asym_prob": 0.4,
                          "pool": ["ASP", "GLU", "ASP", "GLU", "ASP", "GLU", "SER", "THR", "ASN", "LYS", "HIS", "TYR"]}})
    return out


def _coord(rng, size, cls):
    if cls == "uniform":
        return rng.uniform(-15, 15)
    if cls == "boundary":
        k = rng.randint(-4, 4)
        return k * size + rng.choice([0.0, 1e-9, -1e-9, 1e-12, -1e-12, 0.5, -0.5])
    if cls == "negint":
        return float(-rng.randint(0, 12))
    if cls == "zero":
        return rng.choice([0.0, -0.0, 1e-300, -1e-300])
    if cls == "huge":
        return rng.choice([1e5, -1e5, 99999.0, -9999.0]) + rng.uniform(-6, 6)
    if cls == "cluster":
        return rng.choice([3.0, -7.0, 10.0]) + rng.gauss(0, 0.8)
    raise ValueError(cls)


def run_stress(spec, res):
    from pdb2pqr.cells import Cells
    from pdb2pqr.structures import Atom

    rng = random.Random(spec["seed"])
    size = spec["size"]
    cells = Cells(size)
    classes = rng.sample(["uniform", "boundary", "negint", "zero", "huge", "cluster"], rng.randint(2, 4))
    if "boundary" not in classes and rng.random() < 0.7:
        classes.append("boundary")
    registered = {}   # id -> atom  (shadow of what is registered)
    pool = []

    def new_atom():
        a = Atom()
        cls = rng.choice(classes)
        a.x, a.y, a.z = (_coord(rng, size, rng.choice([cls, cls, "uniform"])) for _ in range(3))
        # labels are not identities: a third of the histories reuse a handful of names (and all stress atoms share
        # the residue fields), as solvent with wrapped numbering does
        a.name = f"X{len(pool) % 5}" if spec["seed"] % 3 == 0 else f"X{len(pool)}"
        a.serial = len(pool)
        pool.append(a)
        return a

    class Bio:
        atoms = []

    # initial population through assign_cells (the API the pipeline uses)
    Bio.atoms = [new_atom() for _ in range(rng.randint(20, 120))]
    cells.assign_cells(Bio)
    for a in Bio.atoms:
        registered[id(a)] = a
    nq = 0
    cross = 0
    history = []
    for step in range(400):
        op = rng.choice(["add", "remove", "move", "move", "query", "query", "query"])
        if op == "add":
            a = new_atom()
            cells.add_cell(a)
            registered[id(a)] = a
            history.append(("add", a.name))
        elif op == "remove" and len(registered) > 5:
            a = rng.choice(list(registered.values()))
            cells.remove_cell(a)
            del registered[id(a)]
            history.append(("remove", a.name))
            if rng.random() < 0.3:
                cells.remove_cell(a)  # removing twice is a no-op by contract (cell is None)
        elif op == "move" and registered:
            a = rng.choice(list(registered.values()))
            old = a.cell
            cells.remove_cell(a)
            if rng.random() < 0.5:
                a.x += rng.choice([size, -size, 0.3, -0.3, 2e-9, -2e-9])
                a.y += rng.uniform(-1, 1)
            else:
                a.x, a.y, a.z = (_coord(rng, size, rng.choice(classes)) for _ in range(3))
            cells.add_cell(a)
            if a.cell != old:
                cross += 1
                res.count("stress_moves_across_cells")
            history.append(("move", a.name))
        else:
            for _ in range(12):
                if not registered:
                    break
                a = rng.choice(list(registered.values()))
                got = cells.get_near_cells(a)
                nq += 1
                res.count("stress_queries")
                gotids = {id(g) for g in got}
                if id(a) in gotids:
                    res.violate("stress/self-returned", "query returned the query atom itself", size=size)
                for g in got:
                    if id(g) not in registered:
                        res.violate("stress/ghost", f"removed atom {g.name} returned at step {step}", size=size,
                                    history=history[-30:])
                        break
                for b in registered.values():
                    if b is a:
                        continue
                    d = math.dist((a.x, a.y, a.z), (b.x, b.y, b.z))
                    if d < size and id(b) not in gotids:
                        res.violate("stress/miss", f"size {size}: atom at {(b.x, b.y, b.z)} cell {b.cell} is {d:.9f} "
                                    f"from query {(a.x, a.y, a.z)} cell {a.cell} but was not returned",
                                    size=size, a=(a.x, a.y, a.z), b=(b.x, b.y, b.z), history=history[-30:])
                        break
    if cross > 5 and ({"boundary", "negint", "zero"} & set(classes)):
        res.nt("stress", size, "+".join(sorted(classes)), spec["seed"])
    res.cell("stress", size, "+".join(sorted(classes)))
    res.sample = {"kind": "stress", "size": size, "classes": classes, "queries": nq, "cross_cell_moves": cross,
                  "history_tail": history[-8:]}


def run_pipe(spec, res):
    from pdb2pqr.debump import Debump

    cellmon.install()
    _install_fna(res)
    m = workload.materialise(spec)
    cellmon.drain()
    FNA["n"] = 0
    FNA["bad"] = []
    with pkastub.for_opts(spec["opts"], m["truth"], spec["seed"]) as titr:
        r = pipeline.run(m["text"], spec["opts"], workname="c14")
    if titr is not None:
        res.count("pka_route_runs")
    events, q, sites = cellmon.drain()
    res.count("invivo_queries", q)
    res.count("find_nearby_atoms_differential", FNA["n"])
    res.count("pipeline_runs")
    if not r.ok:
        res.count("pipeline_failed")
    for site, n in sites.items():
        res.cell("site", site)
        res.count(f"site:{site}", n)
    if q:
        res.nt("pipe", spec["w"], spec["seed"])
    if (m.get("meta") or {}).get("water_labels_repeat"):
        res.count("runs_with_repeating_water_labels")
    seen = set()
    for e in events:
        key = f"invivo/size{e['size']}/{e['kind']}/{e['cause']}/{e['role']}"
        if key in seen:
            continue
        seen.add(key)
        res.violate(key, f"{e['kind']} at {e['site']} (cell size {e['size']}): query {e['query']} other {e['other']} "
                    f"dist {e.get('dist', 0):.3f} other_cell {e.get('other_cell')}", event=e,
                    n_events=sum(1 for x in events if x["kind"] == e["kind"] and x["cause"] == e["cause"] and x["role"] == e["role"]))
    for b in FNA["bad"][:3]:
        res.violate(f"invivo/find_nearby_atoms/{b['kind']}", b["detail"],
                    **{k: v for k, v in b.items() if k not in ("detail", "mech")}, ff=spec["ff"], opts=spec["opts"],
                    seed=spec["seed"])
    res.sample = {"kind": "pipe", "w": spec["w"], "seed": spec["seed"], "opts": spec["opts"], "queries": q,
                  "sites": sites, "ok": r.ok}


FNA = {"installed": False, "n": 0, "bad": []}


def _install_fna(res):
    """Differential on Debump.find_nearby_atoms: same filter code, but fed every atom of the molecule."""
    if FNA["installed"]:
        return
    from pdb2pqr.debump import Debump
    orig = Debump.find_nearby_atoms

    class AllAtoms:
        def __init__(self, bio):
            self.bio = bio

        def get_near_cells(self, atom):
            return [a for a in self.bio.atoms if a is not atom]

    def find_nearby_atoms(self, atom):
        result = orig(self, atom)
        real = self.cells
        if real is None or FNA.get("busy"):
            return result
        FNA["busy"] = True
        try:
            self.cells = AllAtoms(self.biomolecule)
            brute = orig(self, atom)
        finally:
            self.cells = real
            FNA["busy"] = False
        FNA["n"] += 1
        a, b = {id(k) for k in result}, {id(k) for k in brute}
        if a != b and len(FNA["bad"]) < 10:
            missing = [f"{k.residue} {k.name}" for k in brute if id(k) not in a]
            extra = [f"{k.residue} {k.name}" for k in result if id(k) not in b]
            FNA["bad"].append({"kind": "miss" if missing else "ghost", "detail":
                               f"find_nearby_atoms({atom.residue} {atom.name}) differs from all-pairs: missing "
                               f"{missing[:4]} extra {extra[:4]}"})
        return result

    Debump.find_nearby_atoms = find_nearby_atoms
    FNA["installed"] = True


def setup_worker():
    import logging
    logging.getLogger().setLevel(logging.ERROR)


def run_scan(spec, res):
    """The debumper's own scan protocol on the biomolecule a full run returned: every torsion of every residue is turned
    in 10 degree steps through Debump.set_dihedral_angle on a fresh size-2 map, and after every step each atom of the
    residue must be returned by the neighbour search of every atom within the cell size of it (single-atom torsions -
    hydroxyl / thiol hydrogens - are re-registered dozens of times in a row, mostly without leaving their cell)."""
    import numpy as np
    from pdb2pqr.cells import Cells
    from pdb2pqr.debump import Debump
    from ..gen import pdbfmt
    from ..gen import structures as S
    rng = random.Random(spec["seed"])
    pool = ["SER", "THR", "TYR", "CYS", "LYS", "GLU", "ASN", "HIS", "MET", "ARG", "ILE", "ALA"]
    pep = S.peptide([rng.choice(pool) for _ in range(rng.randint(4, 7))], rng)
    wat = [S.water(S.centroid(pep), rng, spread=6.0) for _ in range(rng.randint(0, 3))]
    items, _truth = S.assemble([{"id": "A", "start": 1, "residues": pep}] +
                               ([{"id": "W", "start": 201, "residues": wat}] if wat else []))
    r = pipeline.run(pdbfmt.to_text(items), [f"--ff={spec['ff']}"] + rng.choice([[], ["--noopt"]]), workname="c14")
    if not r.ok:
        res.count("scan_runs_failed")
        return
    bio = r.bio
    deb = Debump(bio)
    size = 2
    deb.cells = Cells(size)
    deb.cells.assign_cells(bio)
    bio.calculate_dihedral_angles()
    bio.set_donors_acceptors()
    bio.update_internal_bonds()
    bio.set_reference_distance()
    res.count("scan_structures")
    registered = [a for a in bio.atoms if getattr(a, "cell", None) is not None]
    for residue in bio.residues:
        ref = getattr(residue, "reference", None)
        if ref is None or not hasattr(residue, "dihedrals"):
            continue
        for anglenum, dname in enumerate(ref.dihedrals):
            names = dname.split()
            if anglenum >= len(residue.dihedrals) or residue.dihedrals[anglenum] is None or \
                    not all(residue.has_atom(n) for n in names):
                continue
            moved = residue.get_moveable_names(names[2])
            start = residue.dihedrals[anglenum]
            for step in range(1, rng.choice([6, 12, 36]) + 1):
                deb.set_dihedral_angle(residue, anglenum, start + 10.0 * step)
                res.count("scan_steps")
                if len(moved) == 1:
                    res.count("scan_steps_single_atom_torsion")
                xyz = np.array([[a.x, a.y, a.z] for a in registered])
                for mname in moved:
                    if not residue.has_atom(mname):
                        continue
                    m = residue.get_atom(mname)
                    d = np.linalg.norm(xyz - np.array([m.x, m.y, m.z]), axis=1)
                    for k in np.nonzero(d <= size)[0]:
                        q = registered[k]
                        if q is m:
                            continue
                        res.count("scan_queries")
                        if not any(x is m for x in deb.cells.get_near_cells(q)):
                            res.violate("scan/moved-atom-not-found-by-neighbour", f"after step {step} of torsion '{dname}' of "
                                        f"{residue}: {q.residue} {q.name} does not see {mname} at {d[k]:.2f} A (cell size "
                                        f"{size}; {mname}.cell = {m.cell})", ff=spec["ff"], seed=spec["seed"],
                                        dihedral=dname, moved=moved)
                            return
            res.nt("scan", residue.name, anglenum)
            res.cell("scan", residue.name, "single" if len(moved) == 1 else "multi")
    res.sample = {"kind": "scan", "seed": spec["seed"]}


def run_case(spec):
    res = Res()
    if spec["kind"] == "scan":
        run_scan(spec, res)
    elif spec["kind"] == "stress":
        run_stress(spec, res)
    else:
        run_pipe(spec, res)
    return res
