"""Runtime-monitoring machinery for pdb2pqr (see DESIGN.md)."""
