"""CLI: python -m vf.check C07 [--tier quick|thorough] [--seed N] [--replay path]"""
import argparse
import os
import sys

from . import common
from .run import run_check


def main():
    ap = argparse.ArgumentParser()
    ap.add_argument("cid")
    ap.add_argument("--tier", default=os.environ.get("VERIF_TIER") or "quick", choices=["quick", "thorough"])
    ap.add_argument("--seed", type=int, default=None)
    ap.add_argument("--replay")
    ap.add_argument("--jobs", type=int, default=None)
    a = ap.parse_args()
    seed = a.seed if a.seed is not None else common.seed_from_env(0)
    sys.exit(run_check(a.cid, a.tier, seed, a.replay, a.jobs))


if __name__ == "__main__":
    main()
