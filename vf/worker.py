"""Worker: run the cases of one shard sequentially in this process, one JSON line per case."""
import json
import logging
import sys
import traceback

from . import common
from .run import Res, load_check


def main():
    cid, inp, out = sys.argv[1:4]
    common.ensure_deps()
    logging.disable(logging.NOTSET)
    chk = load_check(cid)
    if hasattr(chk, "setup_worker"):
        chk.setup_worker()
    shard = json.load(open(inp))
    with open(out, "w") as fh:
        for i, spec in shard:
            try:
                res = chk.run_case(spec)
                d = res.as_dict() if isinstance(res, Res) else res
                row = {"i": i, "res": d}
            except BaseException as exc:  # harness error: recorded, makes the verdict inconclusive
                if isinstance(exc, KeyboardInterrupt):
                    raise
                row = {"i": i, "error": "".join(traceback.format_exception(exc))}
            fh.write(json.dumps(row, default=str) + "\n")
            fh.flush()


if __name__ == "__main__":
    main()
