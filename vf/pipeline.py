"""Run the real pdb2pqr entry point on generated input and collect everything an oracle may look at."""
import logging
import os
import shutil
import tempfile
from pathlib import Path

from . import common


class LogCapture(logging.Handler):
    def __init__(self):
        super().__init__(level=logging.DEBUG)
        self.records = []

    def emit(self, record):
        try:
            msg = record.getMessage()
        except Exception:  # noqa: BLE001
            msg = str(record.msg)
        self.records.append((record.levelno, record.name, msg))

    def warnings(self):
        return [(lv, m) for lv, _n, m in self.records if lv >= logging.WARNING]


class Run:
    """Result of one execution."""

    def __init__(self):
        self.exc = None
        self.missed = None
        self.pka_df = None
        self.bio = None
        self.pqr_text = None
        self.log = None
        self.dir = None
        self.argv = None
        self.out_path = None
        self.extra = {}

    @property
    def ok(self):
        return self.exc is None

    def cleanup(self):
        if self.dir:
            shutil.rmtree(self.dir, ignore_errors=True)
            self.dir = None


_CAP = None


def _capture():
    """One shared capture handler on the root logger; DuplicateFilter-free view of all pdb2pqr records."""
    global _CAP
    if _CAP is None:
        _CAP = LogCapture()
        root = logging.getLogger()
        root.addHandler(_CAP)
        root.setLevel(logging.INFO)
    _CAP.records = []
    return _CAP


def reset_duplicate_filters():
    """pdb2pqr installs io.DuplicateFilter objects that count warnings across runs in one process
    (a display-only rate limiter).  Oracles that read warnings reset the counters between runs so a warning is
    observable in every run; this touches logging state only, never the computation."""
    import pdb2pqr.io as pio
    for name in list(logging.root.manager.loggerDict):
        lg = logging.getLogger(name)
        for f in lg.filters:
            if isinstance(f, pio.DuplicateFilter):
                f.warn_count.clear()


def run(input_text, opts, suffix=".pdb", extra_files=None, keep=False, workname="pipe", out_name="out.pqr",
        pre_output=None, input_name=None, on_ready=None):
    """Execute main_driver(parse_args([...opts, input, output])).

    opts: list of CLI tokens (e.g. ["--ff=AMBER", "--whitespace"]); tokens containing {dir} are formatted.
    extra_files: {name: text} written next to the input.
    pre_output: bytes to pre-seed at the output path (sentinel), or None.
    """
    from pdb2pqr.main import build_main_parser, main_driver

    r = Run()
    base = common.workdir(workname)
    r.dir = Path(tempfile.mkdtemp(prefix="r", dir=str(base)))
    inp = r.dir / (input_name or ("in" + suffix))
    if isinstance(input_text, bytes):
        inp.write_bytes(input_text)
    elif input_text is not None:
        inp.write_text(input_text, newline="")
    for name, text in (extra_files or {}).items():
        (r.dir / name).write_text(text)
    out = r.dir / out_name
    if pre_output is not None:
        out.write_bytes(pre_output)
        os.utime(out, ns=(10 ** 18, 10 ** 18))
    r.out_path = out
    argv = [o.format(dir=str(r.dir)) for o in opts] + [str(inp), str(out)]
    r.argv = argv
    cap = _capture()
    reset_duplicate_filters()
    if on_ready is not None:
        on_ready(out)
    try:
        args = build_main_parser().parse_args(argv)
        r.missed, r.pka_df, r.bio = main_driver(args)
    except SystemExit as e:  # argparse errors
        r.exc = e
    except BaseException as e:  # noqa: BLE001
        if isinstance(e, KeyboardInterrupt):
            raise
        r.exc = e
    r.log = list(cap.records)
    if out.exists():
        try:
            r.pqr_text = out.read_text()
        except Exception:  # noqa: BLE001
            r.pqr_text = None
    if not keep:
        r.cleanup()
    return r


def warn_records(r):
    return [(lv, m) for lv, _n, m in (r.log or []) if lv >= logging.WARNING]


def parse_pqr(text, whitespace=None):
    """Token/column hybrid reader for PQR produced in this harness (our own; not io.read_pqr).

    Returns list of dicts: rec, serial, name, resn, chain, resi, icode, x, y, z, q, r, line.
    Default layout is read by fixed columns; --whitespace layout by tokens.
    """
    out = []
    for line in text.splitlines():
        if not (line.startswith("ATOM") or line.startswith("HETATM")):
            continue
        if whitespace:
            w = line.split()
            rec = w[0]
            d = {"rec": rec, "serial": int(w[1]), "name": w[2], "resn": w[3]}
            rest = w[4:]
            chain = ""

            def _isint(t):
                return t.lstrip("-").isdigit() and t not in ("", "-")

            if not _isint(rest[0]) and not (_isint(rest[0][:-1]) and rest[0][-1].isalpha()):
                tok = rest.pop(0)
                if len(tok) > 1 and (_isint(tok[1:]) or (_isint(tok[1:-1]) and tok[-1].isalpha())):
                    chain, glued = tok[0], tok[1:]      # chain id glued to a full-width residue number (C08 finding)
                    rest.insert(0, glued)
                else:
                    chain = tok
            resi_tok = rest.pop(0)
            icode = ""
            if not _isint(resi_tok):
                icode = resi_tok[-1]
                resi_tok = resi_tok[:-1]
            d.update(chain=chain, resi=int(resi_tok), icode=icode)
            if len(rest) == 6:  # separate insertion-code token
                d["icode"] = rest.pop(0)
            d.update(x=float(rest[0]), y=float(rest[1]), z=float(rest[2]), q=float(rest[3]), r=float(rest[4]),
                     xs=rest[0], ys=rest[1], zs=rest[2], qs=rest[3], rs=rest[4])
        else:
            d = {"rec": line[0:6].strip(), "serial": int(line[6:11]), "name": line[12:16].strip(),
                 "resn": line[16:21].strip(), "chain": line[21:22].strip(), "resi": int(line[22:26]),
                 "icode": line[26:27].strip(), "x": float(line[30:38]), "y": float(line[38:46]),
                 "z": float(line[46:54]), "q": float(line[54:62]), "r": float(line[62:69]),
                 "xs": line[30:38].strip(), "ys": line[38:46].strip(), "zs": line[46:54].strip(),
                 "qs": line[54:62].strip(), "rs": line[62:69].strip()}
        d["line"] = line
        out.append(d)
    return out
