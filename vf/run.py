"""Shard runner, verdicts, evidence writer, known-finding classifier, replay files.

A check module (vf/checks/cNN.py) provides:
  ID, LEVEL, RULE, ASSUMPTIONS, MIN = {"quick": {counter: n}, "thorough": {...}}
  cases(tier, seed) -> list of JSON-able case specs
  run_case(spec) -> dict built with Res (violations / counters / cells / nontrivial / sample)
  optional: setup_worker(), finalize(agg, tier) -> list of inconclusive reasons, TIMEOUT = {"quick": s, "thorough": s}

Verdicts are three-valued: exit 0 (held on what was observed), exit 1 + VIOLATION line, exit 2 INCONCLUSIVE.
"""
import importlib
import json
import os
import subprocess
import sys
import tempfile
import time
from collections import Counter
from concurrent.futures import ThreadPoolExecutor
from pathlib import Path

from . import common


class Res:
    """Accumulator for one case's observations."""

    def __init__(self):
        self.violations = []
        self.counters = Counter()
        self.cells = set()
        self.nontrivial = set()
        self.sample = None
        self.notes = []

    def count(self, name, n=1):
        self.counters[name] += n

    def cell(self, *parts):
        self.cells.add("|".join(str(p) for p in parts))

    def nt(self, *parts):
        self.nontrivial.add("|".join(str(p) for p in parts))

    def violate(self, mech, detail, /, **witness):
        """mech: mechanism key (stable, no random values); detail: human text; witness: JSON-able."""
        self.violations.append({"mech": mech, "detail": detail, "witness": witness})

    def note(self, text):
        if len(self.notes) < 20:
            self.notes.append(text)

    def as_dict(self):
        return {"violations": self.violations, "counters": dict(self.counters), "cells": sorted(self.cells),
                "nontrivial": sorted(self.nontrivial), "sample": self.sample, "notes": self.notes}


def load_check(cid):
    return importlib.import_module(f"vf.checks.{cid.lower()}")


def load_known():
    try:
        data = json.loads(common.KNOWN.read_text())
    except FileNotFoundError:
        return []
    return data.get("findings", [])


def classify(cid, violations, known):
    """Split violations into (unlisted, listed-by-key)."""
    open_keys = {k["key"]: k for k in known if k.get("property") == cid and k.get("status") == "open"}
    unlisted, listed = [], {}
    for v in violations:
        if v["mech"] in open_keys:
            listed.setdefault(v["mech"], []).append(v)
        else:
            unlisted.append(v)
    return unlisted, listed, open_keys


def write_replay(cid, spec, violation):
    d = common.REPLAYS / cid
    d.mkdir(parents=True, exist_ok=True)
    name = "".join(c if c.isalnum() or c in "-_." else "_" for c in violation["mech"])[:60]
    path = d / f"{name}-{common.h8([spec, violation['mech']])}.json"
    path.write_text(json.dumps({"property": cid, "spec": spec, "violation": violation}, indent=1, default=str))
    return path


def _run_shard(cid, shard, idx, wdir, timeout, seed):
    inp = wdir / f"shard{idx}.in.json"
    out = wdir / f"shard{idx}.out.jsonl"
    inp.write_text(json.dumps(shard))
    env = dict(os.environ, PYTHONHASHSEED=os.environ.get("VERIF_HASHSEED", "0"), VERIF_SEED=str(seed),
               PYTHONPATH=f"{common.VERIF}:{os.environ.get('PYTHONPATH', '')}", PIP_NO_INDEX="1")
    env[common.GUARD] = "1"
    status = "ok"
    launch = [common.PY, "-m", "vf.worker"]
    if common.COVERAGE:  # observation of which repository lines the monitored workload reaches (not an oracle)
        env["COVERAGE_CORE"] = "sysmon"
        launch = [common.PY, "-m", "coverage", "run", f"--data-file={common.COVERAGE}/cov.{cid}.{idx}",
                  f"--include={common.REPO}/pdb2pqr/*", "-m", "vf.worker"]
    try:
        p = subprocess.run(launch + [cid, str(inp), str(out)], cwd=str(common.VERIF), env=env,
                           timeout=timeout, capture_output=True, text=True)
        if p.returncode != 0:
            status = f"worker exit {p.returncode}: {p.stderr[-800:]}"
    except subprocess.TimeoutExpired:
        status = "timeout"
    rows = []
    if out.exists():
        for line in out.read_text().splitlines():
            try:
                rows.append(json.loads(line))
            except json.JSONDecodeError:
                pass
    return status, rows


def run_check(cid, tier, seed, replay=None, jobs=None):
    t0 = time.time()
    cid = cid.upper()
    common.ensure_deps()
    sys.path.insert(0, str(common.VERIF))
    chk = load_check(cid)
    known = load_known()
    if replay:
        return run_replay(cid, chk, replay, known)
    ident = common.repo_identity()
    specs = chk.cases(tier, seed)
    jobs = jobs or int(os.environ.get("VERIF_JOBS", "0")) or min(16, os.cpu_count() or 4)
    nsh = max(1, min(len(specs), jobs * getattr(chk, "SHARDS_PER_JOB", 3)))
    shards = [[] for _ in range(nsh)]
    for i, s in enumerate(specs):
        shards[i % nsh].append([i, s])
    wdir = Path(tempfile.mkdtemp(prefix=f"{cid}-", dir=str(common.workdir("run"))))
    timeout = getattr(chk, "TIMEOUT", {}).get(tier, 1500 if tier == "quick" else 6 * 3600)
    results, statuses = {}, []
    with ThreadPoolExecutor(max_workers=jobs) as ex:
        futs = [ex.submit(_run_shard, cid, sh, i, wdir, timeout, seed) for i, sh in enumerate(shards)]
        for f in futs:
            st, rows = f.result()
            statuses.append(st)
            for r in rows:
                results[r["i"]] = r
    common.wipe(wdir)

    agg = {"counters": Counter(), "cells": set(), "nontrivial": set(), "samples": [], "violations": [],
           "errors": [], "notes": []}
    for i, spec in enumerate(specs):
        r = results.get(i)
        if r is None:
            continue
        if r.get("error"):
            agg["errors"].append({"i": i, "error": r["error"][-1500:]})
            continue
        d = r["res"]
        agg["counters"].update(d["counters"])
        agg["cells"].update(d["cells"])
        agg["nontrivial"].update(d["nontrivial"])
        for n in d.get("notes", []):
            if len(agg["notes"]) < 40:
                agg["notes"].append(n)
        if d["sample"] is not None and len(agg["samples"]) < 6:
            agg["samples"].append(d["sample"])
        for v in d["violations"]:
            v["spec_index"] = i
            agg["violations"].append(v)
    missing = [i for i in range(len(specs)) if i not in results]
    inconclusive = []
    if missing:
        inconclusive.append(f"{len(missing)} of {len(specs)} cases produced no result (shard status: "
                            f"{[s for s in statuses if s != 'ok'][:3]})")
    if agg["errors"]:
        inconclusive.append(f"{len(agg['errors'])} harness errors, first: {agg['errors'][0]['error'][-600:]}")
    for name, need in getattr(chk, "MIN", {}).get(tier, {}).items():
        if agg["counters"].get(name, 0) < need:
            inconclusive.append(f"monitor {name} evaluated {agg['counters'].get(name, 0)} < {need} times")
    if hasattr(chk, "finalize"):
        inconclusive += list(chk.finalize(agg, tier) or [])

    unlisted, listed, open_keys = classify(cid, agg["violations"], known)
    for name in sorted(agg["counters"]):
        print(f"monitor={name} evaluations={agg['counters'][name]}")
    print(f"cases={len(specs)} completed={len(results) - len(agg['errors'])} cells={len(agg['cells'])} "
          f"distinct_nontrivial={len(agg['nontrivial'])}")
    for key, vs in sorted(listed.items()):
        print(f"KNOWN-FINDING: property={cid} {key} :: {open_keys[key].get('mechanism', '')} "
              f"[{len(vs)} witnesses, e.g. {vs[0]['detail'][:160]}]")
    replay_paths = []
    seen_mech = Counter()
    for v in unlisted:
        seen_mech[v["mech"]] += 1
        if seen_mech[v["mech"]] > 3:
            continue
        path = write_replay(cid, specs[v["spec_index"]], v)
        replay_paths.append(str(path))
        print(f"VIOLATION property={cid} replay={path}")
        print(f"  mech={v['mech']} detail={v['detail'][:400]}")
    wall = time.time() - t0
    cov = {
        "evaluations": int(agg["counters"].get(getattr(chk, "EVAL_COUNTER", ""), 0) or len(results)),
        "distinct_nontrivial": len(agg["nontrivial"]),
        "rule": chk.RULE,
        "samples": agg["samples"] or [specs[0] if specs else None],
        "cases_generated": len(specs),
        "cases_completed": len(results) - len(agg["errors"]),
        "monitor_evaluations": dict(sorted(agg["counters"].items())),
        "cells_reached": len(agg["cells"]),
        "cells": sorted(agg["cells"])[:400],
        "known_findings_hit": {k: len(v) for k, v in listed.items()},
        "unlisted_violation_mechanisms": dict(seen_mech),
        "inconclusive_reasons": inconclusive,
        "notes": agg["notes"],
        "verdict": "violated" if unlisted else ("inconclusive" if inconclusive else "held_on_observed"),
        **ident,
    }
    ev = {"property_id": cid, "tier": tier, "seed": int(seed), "level": chk.LEVEL, "coverage": cov,
          "assumptions": list(getattr(chk, "ASSUMPTIONS", [])), "wall_s": round(wall, 2), "violations": len(unlisted)}
    common.EVIDENCE.mkdir(parents=True, exist_ok=True)
    (common.EVIDENCE / f"{cid}.json").write_text(json.dumps(ev, indent=1, default=str) + "\n")
    if unlisted:
        print(f"RESULT property={cid} violated ({len(unlisted)} unlisted violations, {len(seen_mech)} mechanisms)")
        return 1
    if inconclusive:
        for r in inconclusive:
            print(f"INCONCLUSIVE property={cid} {r}")
        return 2
    print(f"RESULT property={cid} held on {cov['cases_completed']} executions "
          f"({cov['distinct_nontrivial']} distinct non-trivial, {cov['cells_reached']} cells) in {wall:.0f}s")
    return 0


def run_replay(cid, chk, path, known):
    data = json.loads(Path(path).read_text())
    os.environ.setdefault("PYTHONHASHSEED", "0")
    if hasattr(chk, "setup_worker"):
        chk.setup_worker()
    res = chk.run_case(data["spec"])
    d = res.as_dict() if isinstance(res, Res) else res
    unlisted, listed, open_keys = classify(cid, d["violations"], known)
    for key, vs in listed.items():
        print(f"KNOWN-FINDING: property={cid} {key} :: {vs[0]['detail'][:300]}")
    for v in unlisted:
        print(f"VIOLATION property={cid} replay={path}")
        print(f"  mech={v['mech']} detail={v['detail'][:1000]}")
        print(f"  witness={json.dumps(v['witness'], default=str)[:2000]}")
    if not d["violations"]:
        print(f"replay: no violation observed (counters {d['counters']})")
    return 1 if unlisted else 0
