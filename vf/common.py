"""Shared plumbing: paths, offline dependency bootstrap, repo identity, scratch dirs."""
import hashlib
import json
import os
import shutil
import subprocess
import sys
from pathlib import Path

VERIF = Path(__file__).resolve().parent.parent
REPO = Path(os.environ.get("VERIF_REPO", "/repo"))
DEPS = VERIF / ".deps"
WORK = VERIF / ".work"
SCRATCH_TREE = REPO.resolve() != Path("/repo")  # mutant / seeded-change validation against a scratch worktree
COVERAGE = os.environ.get("VERIF_COVERAGE")  # directory: workers run under coverage.py (tools/coverage_report.sh)
_SIDE = SCRATCH_TREE or bool(COVERAGE)  # side runs never touch the committed evidence / replays
EVIDENCE = (WORK / "evidence-scratch") if _SIDE else VERIF / "evidence"
REPLAYS = (WORK / "replays-scratch") if _SIDE else VERIF / "replays"
KNOWN = VERIF / "known_findings.json"
WHEELS = "/opt/veriftools/wheels"
PY = "/venv/bin/python"
GUARD = "PDB2PQR_VERIF"

FFS = ["AMBER", "CHARMM", "PARSE", "TYL06", "PEOEPB", "SWANSON"]


def ensure_deps():
    """Install icontract (+deal) offline into .deps when absent, and put it on sys.path."""
    marker = DEPS / "icontract"
    if not marker.is_dir():
        DEPS.mkdir(exist_ok=True)
        cmd = [PY, "-m", "pip", "install", "--quiet", "--no-index", "--find-links", WHEELS,
               "--target", str(DEPS), "icontract", "deal"]
        env = dict(os.environ, PIP_NO_INDEX="1", PIP_DISABLE_PIP_VERSION_CHECK="1")
        subprocess.run(cmd, check=False, env=env, stdout=subprocess.DEVNULL, stderr=subprocess.DEVNULL)
    if str(DEPS) not in sys.path:
        sys.path.append(str(DEPS))
    return marker.is_dir()


def repo_identity():
    """HEAD + dirty flag of the tree pdb2pqr is imported from, and assert it is REPO."""
    import pdb2pqr
    src = Path(pdb2pqr.__file__).resolve()
    if REPO.resolve() not in src.parents:
        raise RuntimeError(f"pdb2pqr imported from {src}, not from {REPO}")
    try:
        head = subprocess.run(["git", "-C", str(REPO), "rev-parse", "HEAD"], capture_output=True,
                              text=True, timeout=30).stdout.strip()
        dirty = bool(subprocess.run(["git", "-C", str(REPO), "status", "--porcelain", "--untracked-files=no"],
                                    capture_output=True, text=True, timeout=30).stdout.strip())
    except Exception:  # pragma: no cover
        head, dirty = "unknown", False
    return {"repo_head": head, "repo_dirty": dirty, "pdb2pqr_file": str(src)}


def workdir(name):
    d = WORK / name
    d.mkdir(parents=True, exist_ok=True)
    return d


def wipe(path):
    shutil.rmtree(path, ignore_errors=True)


def h8(obj):
    return hashlib.sha1(json.dumps(obj, sort_keys=True, default=str).encode()).hexdigest()[:10]


def seed_from_env(default=0):
    try:
        return int(os.environ.get("VERIF_SEED", default))
    except ValueError:
        return default
