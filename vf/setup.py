"""MANIFEST.setup_cmd: offline install of contracts library + self-test of the reference models."""
import sys

from . import common


def main():
    ok = common.ensure_deps()
    print("deps:", "ok" if ok else "icontract unavailable (contract layer falls back to plain wrappers)")
    ident = common.repo_identity()
    print("repo:", ident)
    from .ref import selftest
    sys.exit(selftest.main())


if __name__ == "__main__":
    main()
