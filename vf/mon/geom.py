"""In-vivo geometry monitors shared by C04 / C05 / C15 (installed from the harness, no source change):

* Debump.set_dihedral_angle  - pre/post contract (vf.mon.torsion): requested angle reached, axis distances kept,
                               moved set = atoms connected beyond the pivot bond (bond-graph BFS), rigid
* Residue.rotate_tetrahedral - only the substituents of atom2 move, by |angle| about the atom1-atom2 axis
* quatfit.find_coordinates   - result = Kabsch image of the template point (>= 3 anchors); anchor residuals kept
* <Residue classes>.create_atom - new atom linked to the fit event that produced its coordinates

Events are appended to EVENTS (list of dicts) and drained by the checks.
"""
import numpy as np

from ..ref import rigid
from . import torsion

EVENTS = []
COUNTS = {"set_dihedral": 0, "rotate_tetrahedral": 0, "find_coordinates": 0, "create_atom": 0}
STATE = {"installed": False, "last_fit": None, "unavailable": []}
MAXEV = 3000


def _ev(**k):
    if len(EVENTS) < MAXEV:
        EVENTS.append(k)


def install():
    if STATE["installed"]:
        return
    try:
        from pdb2pqr.debump import Debump
        orig_sda = Debump.set_dihedral_angle

        def set_dihedral_angle(self, residue, anglenum, angle):
            names = residue.reference.dihedrals[anglenum].split()
            before = torsion.snapshot(residue)
            info = {a.name: (bool(a.added), a.name[0] == "H") for a in residue.atoms}
            out = orig_sda(self, residue, anglenum, angle)
            after = torsion.snapshot(residue)
            COUNTS["set_dihedral"] += 1
            for clause, mech, detail in torsion.check_torsion_change(residue, names, angle, before, after):
                atom = mech.split("/", 1)[1] if "/" in mech else None
                _ev(hook="set_dihedral_angle", clause=clause, mech=mech, detail=detail, residue=str(residue),
                    resname=residue.name, dihedral=" ".join(names), atom=atom,
                    atom_added=info.get(atom, (None, None))[0], atom_is_h=info.get(atom, (None, None))[1],
                    n_term=bool(getattr(residue, "is_n_term", 0)), c_term=bool(getattr(residue, "is_c_term", 0)))
            return out

        Debump.set_dihedral_angle = set_dihedral_angle
    except Exception as e:  # noqa: BLE001
        STATE["unavailable"].append(f"set_dihedral_angle: {e}")
    try:
        from pdb2pqr.residue import Residue
        orig_rt = Residue.rotate_tetrahedral.__func__

        def rotate_tetrahedral(cls, atom1, atom2, angle):
            residue = atom2.residue
            before = torsion.snapshot(residue) if residue is not None else {}
            expected = {a.name for a in atom2.bonds if a is not atom1}
            out = orig_rt(cls, atom1, atom2, angle)
            COUNTS["rotate_tetrahedral"] += 1
            if residue is not None and atom1.name in before and atom2.name in before:
                after = torsion.snapshot(residue)
                for clause, mech, detail in torsion.check_axis_rotation(before, after, atom1.name, atom2.name, angle,
                                                                        expected):
                    _ev(hook="rotate_tetrahedral", clause=clause, mech=mech, detail=detail, residue=str(residue),
                        resname=residue.name)
            return out

        Residue.rotate_tetrahedral = classmethod(rotate_tetrahedral)
    except Exception as e:  # noqa: BLE001
        STATE["unavailable"].append(f"rotate_tetrahedral: {e}")
    try:
        from pdb2pqr import quatfit
        orig_fc = quatfit.find_coordinates

        def find_coordinates(numpoints, refcoords, defcoords, defatomcoords):
            out = orig_fc(numpoints, refcoords, defcoords, defatomcoords)
            COUNTS["find_coordinates"] += 1
            try:
                P = np.array(defcoords[:numpoints], float)
                Q = np.array(refcoords[:numpoints], float)
                x = np.array(defatomcoords, float)
                fit = {"n": numpoints, "result": tuple(out), "template_x": tuple(x), "template_anchors": P, "anchors": Q}
                if numpoints >= 3 and rigid.triangle_area(P[0], P[1], P[2]) > 0.05:
                    want = rigid.kabsch_image(P, Q, x)
                    fit["residuals"] = rigid.residuals(P, Q)
                    err = float(np.linalg.norm(np.array(out) - want))
                    fit["kabsch_error"] = err
                    if err > 1e-6:
                        # exact for exact copies (property: 1e-6); for distorted anchors the quaternion fit and Kabsch
                        # are both least-squares optimal and agree to numerical precision as well
                        _ev(hook="find_coordinates", clause="fit", mech="fit-differs-from-kabsch",
                            detail=f"find_coordinates is {err:.3e} A from the Kabsch image (max anchor residual "
                                   f"{fit['residuals'].max():.3f})", residue=None, resname=None)
                elif numpoints == 2:
                    fit["residuals"] = np.array([abs(np.linalg.norm(P[0] - P[1]) - np.linalg.norm(Q[0] - Q[1])) / 2] * 2)
                STATE["last_fit"] = fit
            except Exception as e:  # noqa: BLE001
                STATE["unavailable"].append(f"fit-monitor: {e}")
            return out

        quatfit.find_coordinates = find_coordinates
    except Exception as e:  # noqa: BLE001
        STATE["unavailable"].append(f"find_coordinates: {e}")
    try:
        from pdb2pqr import aa, na

        def wrap_create(cls):
            orig = cls.create_atom

            def create_atom(self, atomname, newcoords):
                out = orig(self, atomname, newcoords)
                COUNTS["create_atom"] += 1
                fit = STATE["last_fit"]
                atom = self.get_atom(atomname)
                if atom is not None:
                    # shadow of the bonded neighbourhood at the moment of placement (objects, not names: atoms get
                    # renamed by the optimiser); compared with the end state by C05
                    STATE["born"] = STATE.get("born", 0) + 1
                    atom._vf_born = STATE["born"]
                    atom._vf_d0 = [(b, ((b.x - atom.x) ** 2 + (b.y - atom.y) ** 2 + (b.z - atom.z) ** 2) ** 0.5)
                                   for b in self.atoms if b is not atom and b.name[:1] != "H" and not b.name.startswith("LP")]
                    atom._vf_d0 = [(b, d) for b, d in atom._vf_d0 if d < 2.8]
                if fit is not None and tuple(fit["result"]) == tuple(newcoords) and "residuals" in fit:
                    # rigid-fit consequence: distance to every anchor within that anchor's residual of the template's
                    X = np.array(newcoords, float)
                    for k in range(len(fit["anchors"])):
                        d_s = np.linalg.norm(X - fit["anchors"][k])
                        d_t = np.linalg.norm(np.array(fit["template_x"]) - fit["template_anchors"][k])
                        resid = float(fit.get("residuals", np.zeros(len(fit["anchors"])))[k])
                        if fit["n"] >= 3 and abs(d_s - d_t) > resid + 1e-6:
                            _ev(hook="create_atom", clause="placement", mech="placed-off-template",
                                detail=f"{atomname} placed {d_s:.4f} A from anchor {k}, template says {d_t:.4f} "
                                       f"(anchor residual {resid:.4f})", residue=str(self), resname=self.name)
                            break
                    if atom is not None:
                        atom._vf_fit = {"n": fit["n"], "max_residual": float(np.max(fit.get("residuals", [0.0])))}
                    try:
                        import sys as _sys
                        # only the topology-template placements (hydrogen addition and heavy-atom repair); the
                        # optimiser builds its own local frames for polar hydrogens and waters
                        if _sys._getframe(1).f_code.co_name in ("add_hydrogens", "repair_heavy"):
                            _anchor_identity(self, atomname, fit)
                    except Exception as e:  # noqa: BLE001
                        if len(STATE["unavailable"]) < 5:
                            STATE["unavailable"].append(f"anchor-identity: {type(e).__name__} {e}")
                    STATE["last_fit"] = None
                return out

            cls.create_atom = create_atom

        for cls in (aa.Amino, aa.WAT, aa.LIG, na.Nucleic):
            wrap_create(cls)
    except Exception as e:  # noqa: BLE001
        STATE["unavailable"].append(f"create_atom: {e}")
    STATE["installed"] = True


_TPL_CACHE = {}


def _template_candidates(resname):
    """name -> list of template coordinates the topology files give that atom in this residue family (base template
    and every patch that adds an atom of that name) - own XML parse."""
    from ..ref import topology as topo
    if resname in _TPL_CACHE:
        return _TPL_CACHE[resname]
    res, patches, _ = topo.load()
    base = topo.base_of(resname) or topo.NUCLEIC_BASE.get(resname) or ("WAT" if resname in ("WAT", "HOH") else None)
    out = {}
    if base in res:
        for n, a in res[base].atoms.items():
            out.setdefault(n, []).append(np.array(a["xyz"]))
        for p in patches.values():
            for n, a in p.add.items():
                out.setdefault(n, []).append(np.array(a["xyz"]))
    _TPL_CACHE[resname] = out
    return out


def _anchor_identity(residue, atomname, fit):
    """The template point must be the topology's coordinates of `atomname`, every template anchor must be the
    topology's coordinates of a named atom, and the structure anchor paired with it must be that atom's current
    position in this residue (N+1 / C-1: the neighbouring residue's N / C)."""
    cands = _template_candidates(residue.name)
    if not cands or atomname not in cands:
        return
    COUNTS["anchor_identity_checks"] = COUNTS.get("anchor_identity_checks", 0) + 1
    tx = np.array(fit["template_x"])
    if not any(np.abs(tx - c).max() < 1e-9 for c in cands[atomname]):
        _ev(hook="create_atom", clause="placement", mech="wrong-template-point",
            detail=f"{atomname} was placed from template coordinates {tuple(np.round(tx, 3))}, the topology gives "
                   f"{[tuple(np.round(c, 3)) for c in cands[atomname]]}", residue=str(residue), resname=residue.name)
        return
    for k in range(len(fit["anchors"])):
        ta = fit["template_anchors"][k]
        names = [n for n, cs in cands.items() if any(np.abs(ta - c).max() < 1e-9 for c in cs)]
        if not names:
            _ev(hook="create_atom", clause="placement", mech="anchor-not-a-template-atom",
                detail=f"anchor {k} used to place {atomname} has template coordinates {tuple(np.round(ta, 3))} that belong "
                       f"to no atom of the topology", residue=str(residue), resname=residue.name)
            return
        ok = False
        for nm in names:
            if nm == "N+1":
                at = getattr(residue, "peptide_n", None)
            elif nm == "C-1":
                at = getattr(residue, "peptide_c", None)
            else:
                at = residue.get_atom(nm)
            if at is not None and np.abs(np.array([at.x, at.y, at.z]) - fit["anchors"][k]).max() < 1e-9:
                ok = True
                if nm in ("N+1", "C-1"):
                    # the neighbour's atom is an anchor only as a *bonded* atom: across a backbone gap it is not
                    own = residue.get_atom("C" if nm == "N+1" else "N")
                    if own is not None:
                        d = float(np.linalg.norm(np.array([own.x, own.y, own.z]) - fit["anchors"][k]))
                        if d > 2.0:
                            _ev(hook="create_atom", clause="placement", mech="anchor-across-backbone-gap",
                                detail=f"placing {atomname}: anchor {nm} is {d:.2f} A from this residue's {own.name} - not "
                                       f"bonded to it (backbone gap)", residue=str(residue), resname=residue.name)
                            return
                break
        if not ok:
            _ev(hook="create_atom", clause="placement", mech="anchor-paired-with-wrong-atom",
                detail=f"placing {atomname}: template anchor {names} is paired with structure coordinates "
                       f"{tuple(np.round(fit['anchors'][k], 3))} which are not that atom's position",
                residue=str(residue), resname=residue.name)
            return


def drain():
    ev = list(EVENTS)
    del EVENTS[:]
    counts = dict(COUNTS)
    for k in COUNTS:
        COUNTS[k] = 0
    STATE["last_fit"] = None
    return ev, counts
