"""Stubbed pKa source shared by the checks: replaces main.run_propka by a table the harness chose (PROPKA-style rows),
records the real PROPKA rows when no table is set, and captures what the titration stage was handed and logged."""
import contextlib
import os
import random

from .. import pipeline

GROUPS = ["ASP", "GLU", "HIS", "CYS", "TYR", "LYS", "ARG"]
# titrated (non-default) state of each group and on which side of the pKa it applies
TITR = {"ASP": ("ASH", "below"), "GLU": ("GLH", "below"), "HIS": ("HIP", "below"), "CYS": ("CYM", "above"),
        "TYR": ("TYM", "above"), "LYS": ("LYN", "above"), "ARG": ("AR0", "above"), "N+": ("NEUTRAL-NTERM", "above"),
        "C-": ("NEUTRAL-CTERM", "below")}
# the group type PROPKA itself reports for each kind of row (its C-terminus group is of type COO)
PROPKA_TYPE = {"ASP": "COO", "GLU": "COO", "HIS": "HIS", "CYS": "CYS", "TYR": "TYR", "LYS": "LYS", "ARG": "ARG",
               "N+": "N+", "C-": "COO"}
STUB = {"table": None, "installed": False, "orig": None, "titration_log": []}


def _has_ligand(biomolecule):
    from pdb2pqr import aa, na
    return any(not isinstance(r, (aa.Amino, na.Nucleic, aa.WAT)) for r in biomolecule.residues)


class _Timeout(Exception):
    pass


@contextlib.contextmanager
def _time_limit(seconds):
    """Wall-clock guard around the real PROPKA call (main thread only; elsewhere no limit)."""
    import signal
    import threading
    if threading.current_thread() is not threading.main_thread() or not hasattr(signal, "setitimer"):
        yield
        return

    def handler(signum, frame):
        raise _Timeout()
    old = signal.signal(signal.SIGALRM, handler)
    signal.setitimer(signal.ITIMER_REAL, seconds)
    try:
        yield
    finally:
        signal.setitimer(signal.ITIMER_REAL, 0)
        signal.signal(signal.SIGALRM, old)


def install():
    if STUB["installed"]:
        return
    import pdb2pqr.main as pmain
    STUB["orig"] = pmain.run_propka

    def run_propka(args, biomolecule):
        if STUB["table"] is None:
            rows, text = STUB["orig"](args, biomolecule)
            STUB["real_rows"] = [dict(r) for r in rows]
            return rows, text
        # The stub replaces the pKa *values*, not the procedure: the real routine still runs first (it serialises the
        # structure for PROPKA - a step of the pipeline with its own effects) and only its table is discarded.
        # Not with hetero groups other than water: PROPKA's own ligand typing (ring search) is exponential on generated
        # ligands and would hang the run; and never for more than 30 s.
        if os.environ.get("VERIF_PKASTUB_REAL", "1") != "0" and not _has_ligand(biomolecule):
            try:
                with _time_limit(30):
                    STUB["orig"](args, biomolecule)
                STUB["real_calls"] = STUB.get("real_calls", 0) + 1
            except BaseException as e:  # noqa: BLE001  (PROPKA cannot digest every generated structure; the table is served anyway)
                if isinstance(e, (KeyboardInterrupt, SystemExit)):
                    raise
                STUB["real_failures"] = STUB.get("real_failures", 0) + 1
        return [dict(r) for r in STUB["table"]], "stubbed pKa table"

    pmain.run_propka = run_propka
    from pdb2pqr.biomolecule import Biomolecule
    orig_apply = Biomolecule.apply_pka_values

    def apply_pka_values(self, force_field, ph, pkadic):
        mark = len(pipeline._CAP.records) if pipeline._CAP else 0
        if STUB.get("inject_terminal") and STUB.get("table"):
            # API-level route: the terminal groups' entries are handed to the titration stage directly, under the key
            # format apply_pka_values itself looks up (main.non_trivial never lets them through - a listed finding)
            pkadic = dict(pkadic)
            for row in STUB["table"]:
                lab = row["group_label"]
                if lab.startswith(("N+", "C-")):
                    pkadic[f"{lab[:2]}  {row['res_num']:>3} {row['chain_id']}".strip()] = row["pKa"]
        STUB["pkadic_keys"] = list(pkadic)
        try:
            return orig_apply(self, force_field, ph, pkadic)
        finally:
            STUB["titration_log"] = list(pipeline._CAP.records[mark:]) if pipeline._CAP else []

    Biomolecule.apply_pka_values = apply_pka_values
    # --ffout rewrites atom names after everything is decided: keep the canonical names for the state observer
    if not getattr(Biomolecule.apply_name_scheme, "_vf_records_names", False):
        orig_ans = Biomolecule.apply_name_scheme

        def apply_name_scheme(self, forcefield_):
            for atom in self.atoms:
                if not hasattr(atom, "_vf_name"):
                    atom._vf_name = atom.name
            return orig_ans(self, forcefield_)

        apply_name_scheme._vf_records_names = True
        Biomolecule.apply_name_scheme = apply_name_scheme
    STUB["installed"] = True


def label(resn, resi, chain):
    return "%-3s%4d%2s" % (resn, resi, chain)


def make_table(truth, rng, ph, forced=None):
    """PROPKA-style rows for every titratable group; forced = {(group, truth index): side} to pin the pKa side."""
    rows, groups = [], []
    for k, t in enumerate(truth):
        if t["kind"] != "aa":
            continue
        cands = []
        if t["pos"] in ("N", "NC"):
            cands.append("N+")
        if t["base"] in GROUPS and t["resn"] == t["base"]:
            cands.append(t["base"])
        if t["pos"] in ("C", "NC"):
            cands.append("C-")
        for g in cands:
            side = (forced or {}).get((g, k)) or rng.choice(["below", "above"])
            rel = rng.choice(["random", "random", "equal", "eps"])
            if side == "below":      # pH below pKa  => protonated
                pka = {"random": ph + rng.uniform(0.01, 6), "equal": ph + 1e-9, "eps": ph + 1e-9}[rel]
            else:                    # pH >= pKa
                pka = {"random": ph - rng.uniform(0.01, 6), "equal": ph, "eps": ph - 1e-9}[rel]
            lab = label(g if g in ("N+", "C-") else t["resn"], t["resi"], t["chain"])
            rows.append({"res_num": t["resi"], "ins_code": t.get("icode") or " ", "res_name": t["resn"], "chain_id": t["chain"],
                         "group_label": lab, "group_type": PROPKA_TYPE.get(g), "pKa": pka, "model_pKa": pka, "buried": 0.0,
                         "coupled_group": None})
            groups.append({"group": g, "k": k, "side": side, "rel": rel, "pka": pka})
    return rows, groups



@contextlib.contextmanager
def for_opts(opts, truth, seed, forced=None):
    """If the option list selects the PROPKA route, serve a random table (pH from --with-ph) for this run."""
    if "--titration-state-method=propka" not in opts:
        yield None
        return
    install()
    ph = next((float(o.split("=")[1]) for o in opts if o.startswith("--with-ph=")), 7.0)
    rows, groups = make_table(truth, random.Random(seed * 31 + 7), ph, forced)
    STUB["table"] = rows
    try:
        yield groups
    finally:
        STUB["table"] = None


def titration_opts(rng):
    return ["--titration-state-method=propka", f"--with-ph={round(rng.uniform(0, 14), 1)}"]


def observed_titration(r, m):
    """{truth ordinal: tuple of titration patches} read off the result through the C06 state observer (atom sets);
    whether these are the *right* states for the table is C06's subject - the other checks take them as the final
    state and judge their own property on it."""
    from ..checks import c06
    from . import match
    pairs = match.match_residues(r.bio, m["items"], m["truth"])
    tord = {id(t): k for k, t in enumerate(m["truth"])}
    out = {}
    for residue, tr in pairs:
        if tr is None or tr["kind"] != "aa":
            continue
        t = []
        for g in ([tr["base"]] if tr["base"] in GROUPS else []) + (["N+"] if tr["pos"] in ("N", "NC") else []) + \
                (["C-"] if tr["pos"] in ("C", "NC") else []):
            o = c06.observed_state(g, residue)
            if o and o != "default":
                t.append(o)
        out[tord[id(tr)]] = tuple(t)
    return out
