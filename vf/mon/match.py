"""Match residues of the returned biomolecule to the generator's ground truth (by input coordinates), derive
geometric disulfide truth, and list written atoms - shared by the C01/C02/C03/C04/C05 oracles."""
import math

from ..gen import pdbfmt


def input_index(items):
    """rounded xyz -> (truth residue key, atom name) for every input atom."""
    idx = {}
    for a in pdbfmt.atoms_of(items):
        idx[(round(a["x"], 3), round(a["y"], 3), round(a["z"], 3))] = ((a["chain"], a["resi"], a["icode"]), a["name"])
    return idx


def match_residues(bio, items, truth):
    """-> list of (residue, truth dict or None) in bio.residues order."""
    idx = input_index(items)
    tmap = {(t["chain"], t["resi"], t["icode"]): t for t in truth}
    out = []
    for residue in bio.residues:
        tr = None
        for a in residue.atoms:
            k = idx.get((round(a.x, 3), round(a.y, 3), round(a.z, 3)))
            if k is not None and k[0][1] == residue.res_seq:
                tr = tmap.get(k[0])
                if tr is not None:
                    break
        out.append((residue, tr))
    return out


def ss_truth(bio, limit=2.5):
    """Residues whose SG lies within `limit` of exactly one other SG which in turn has no other partner... the
    property's own statement: within the limit of each other and of no third sulfur."""
    sgs = []
    for residue in bio.residues:
        if getattr(residue, "name", "") in ("CYS", "CYX", "CYM"):
            sg = residue.get_atom("SG")
            if sg is not None:
                sgs.append((residue, sg))
    partners = {id(r): [] for r, _ in sgs}
    for i, (r1, a1) in enumerate(sgs):
        for r2, a2 in sgs[i + 1:]:
            if math.dist((a1.x, a1.y, a1.z), (a2.x, a2.y, a2.z)) < limit:
                partners[id(r1)].append(r2)
                partners[id(r2)].append(r1)
    bonded = {}
    for r, _ in sgs:
        p = partners[id(r)]
        if len(p) == 1 and len(partners[id(p[0])]) == 1:
            bonded[id(r)] = p[0]
    ambiguous = {id(r) for r, _ in sgs if len(partners[id(r)]) > 1 or
                 any(len(partners[id(q)]) > 1 for q in partners[id(r)])}
    return bonded, ambiguous


def written_atoms(bio, missed):
    m = {id(a) for a in (missed or [])}
    return [a for a in bio.atoms if id(a) not in m]
