"""Match residues of the returned biomolecule to the generator's ground truth (by input coordinates), derive
geometric disulfide truth, and list written atoms - shared by the C01/C02/C03/C04/C05 oracles."""
import math

from ..gen import pdbfmt


def input_index(items):
    """rounded xyz -> (ordinal of the residue block in file order, atom name) for every input atom.
    Residue blocks are runs of records sharing (chain, resi, icode), broken by TER - the same order in which the
    generators emit their ground truth."""
    idx = {}
    ordinal = -1
    block = None
    seg = 0
    for it in items:
        if not isinstance(it, dict):
            if isinstance(it, str) and it.startswith("TER"):
                seg += 1
            continue
        b = (it["chain"], it["resi"], it["icode"], it.get("seg", seg))
        if b != block:
            block = b
            ordinal += 1
        idx[(round(it["x"], 3), round(it["y"], 3), round(it["z"], 3))] = (ordinal, it["name"], it["resi"])
    return idx, ordinal + 1


def match_residues(bio, items, truth):
    """-> list of (residue, truth dict or None) in bio.residues order."""
    idx, nblocks = input_index(items)
    aligned = nblocks == len(truth)
    out = []
    for residue in bio.residues:
        tr = None
        if aligned:
            for a in residue.atoms:
                k = idx.get((round(a.x, 3), round(a.y, 3), round(a.z, 3)))
                if k is not None and k[2] == residue.res_seq:
                    tr = truth[k[0]]
                    break
        out.append((residue, tr))
    return out


def ss_truth(bio, limit=2.5):
    """Residues whose SG lies within `limit` of exactly one other SG which in turn has no other partner... the
    property's own statement: within the limit of each other and of no third sulfur."""
    sgs = []
    for residue in bio.residues:
        if getattr(residue, "name", "") in ("CYS", "CYX", "CYM"):
            sg = residue.get_atom("SG")
            if sg is not None:
                sgs.append((residue, sg))
    partners = {id(r): [] for r, _ in sgs}
    for i, (r1, a1) in enumerate(sgs):
        for r2, a2 in sgs[i + 1:]:
            if math.dist((a1.x, a1.y, a1.z), (a2.x, a2.y, a2.z)) < limit:
                partners[id(r1)].append(r2)
                partners[id(r2)].append(r1)
    bonded = {}
    for r, _ in sgs:
        p = partners[id(r)]
        if len(p) == 1 and len(partners[id(p[0])]) == 1:
            bonded[id(r)] = p[0]
    ambiguous = {id(r) for r, _ in sgs if len(partners[id(r)]) > 1 or
                 any(len(partners[id(q)]) > 1 for q in partners[id(r)])}
    return bonded, ambiguous


def written_atoms(bio, missed):
    m = {id(a) for a in (missed or [])}
    return [a for a in bio.atoms if id(a) not in m]
