"""Pre/post oracle for torsion changes (Debump.set_dihedral_angle) and tetrahedral rotations.

Used (a) by direct-drive workloads (C15, C04) and (b) as an in-vivo wrapper inside whole-pipeline runs
(C04, C05, C15).  All expectations are computed from coordinates and the residue's bond graph, never from
`refdistance` (the code's own ranking) - that is the point.
"""
import numpy as np

from ..ref.rigid import angdiff, dihedral

MOVE_EPS = 1e-9


def snapshot(residue):
    return {a.name: (a.x, a.y, a.z) for a in residue.atoms}


def far_side(residue, b_name, c_name):
    """Names reachable from c without crossing the b-c bond (BFS on atom.bonds inside the residue).
    Returns (set, ring) where ring=True means b is reachable too (the bond is in a ring: no far side)."""
    start = residue.get_atom(c_name)
    b_atom = residue.get_atom(b_name)
    seen = {id(start): start}
    todo = [start]
    ring = False
    while todo:
        cur = todo.pop()
        for nb in cur.bonds:
            if nb.residue is not residue:
                continue
            if cur is start and nb is b_atom:
                continue
            if nb is b_atom:
                ring = True
                continue
            if id(nb) not in seen:
                seen[id(nb)] = nb
                todo.append(nb)
    names = {a.name for a in seen.values()}
    names.discard(c_name)
    return names, ring


def check_torsion_change(residue, atomnames, requested, before, after, tol_deg=0.05, tol_d=1e-6):
    """Returns list of (clause, mech_suffix, detail).  clause in {"angle", "axisdist", "dragged", "left", "nonrigid"}"""
    out = []
    a, b, c, d = atomnames
    P = {n: np.array(after[n]) for n in after}
    B = {n: np.array(before[n]) for n in before}
    if not all(n in P for n in atomnames):
        return out
    meas = dihedral(P[a], P[b], P[c], P[d])
    if angdiff(meas, requested) > tol_deg:
        out.append(("angle", "angle", f"requested {requested:.4f} measured {meas:.4f} on {' '.join(atomnames)}"))
    moved = [n for n in P if n in B and np.linalg.norm(P[n] - B[n]) > MOVE_EPS]
    for n in moved:
        for ax in (b, c):
            d0 = np.linalg.norm(B[n] - B[ax])
            d1 = np.linalg.norm(P[n] - P[ax])
            if abs(d0 - d1) > tol_d:
                out.append(("axisdist", "axisdist", f"{n}: distance to axis atom {ax} {d0:.6f}->{d1:.6f}"))
                break
    for ax in (a, b, c):
        if ax in moved:
            out.append(("dragged", f"axis-atom-moved/{ax}", f"axis/reference atom {ax} moved"))
    # rigidity of the moved set as a body
    for i, n1 in enumerate(moved):
        for n2 in moved[i + 1:]:
            d0 = np.linalg.norm(B[n1] - B[n2])
            d1 = np.linalg.norm(P[n1] - P[n2])
            if abs(d0 - d1) > tol_d:
                out.append(("nonrigid", "nonrigid", f"{n1}-{n2} distance {d0:.6f}->{d1:.6f}"))
                break
        else:
            continue
        break
    far, ring = far_side(residue, b, c)
    if not ring:
        for n in moved:
            if n not in far:
                out.append(("dragged", f"dragged/{n}", f"{n} is not connected beyond {b}-{c} but moved "
                                                       f"{np.linalg.norm(P[n] - B[n]):.3f} A"))
        # atoms beyond the pivot that did not move although the torsion changed
        change = angdiff(dihedral(B[a], B[b], B[c], B[d]), meas) if all(n in B for n in atomnames) else 0.0
        if change > 1e-3:
            for n in far:
                if n in P and n in B and n not in moved:
                    # an atom exactly on the axis does not move
                    v = B[n] - B[b]
                    axis = (B[c] - B[b]) / np.linalg.norm(B[c] - B[b])
                    if np.linalg.norm(v - np.dot(v, axis) * axis) > 1e-6:
                        out.append(("left", f"left-behind/{n}", f"{n} is beyond {b}-{c} but did not move"))
    return out


def check_axis_rotation(before, after, axis_a, axis_b, angle_abs, moved_expected, tol_d=1e-6, tol_deg=0.05):
    """rotate_tetrahedral: atoms in moved_expected rotate by |angle| about axis a-b; nothing else moves."""
    out = []
    A0, B0 = np.array(before[axis_a]), np.array(before[axis_b])
    ax = (B0 - A0) / np.linalg.norm(B0 - A0)
    for n in after:
        if n not in before:
            continue
        p0, p1 = np.array(before[n]), np.array(after[n])
        mv = np.linalg.norm(p1 - p0)
        if n not in moved_expected:
            if mv > MOVE_EPS:
                out.append(("dragged", f"tetra-dragged/{n}", f"{n} moved {mv:.4f} A in rotate_tetrahedral"))
            continue
        for axn, axp in ((axis_a, A0), (axis_b, B0)):
            if abs(np.linalg.norm(p0 - axp) - np.linalg.norm(p1 - axp)) > tol_d:
                out.append(("axisdist", "tetra-axisdist", f"{n}: distance to {axn} changed"))
        v0 = (p0 - A0) - np.dot(p0 - A0, ax) * ax
        v1 = (p1 - A0) - np.dot(p1 - A0, ax) * ax
        if np.linalg.norm(v0) > 1e-6:
            cosang = np.dot(v0, v1) / np.linalg.norm(v0) / np.linalg.norm(v1)
            ang = np.degrees(np.arccos(max(-1.0, min(1.0, cosang))))
            want = abs(angle_abs) % 360.0
            want = min(want, 360.0 - want)
            if abs(ang - want) > tol_deg:
                out.append(("angle", "tetra-angle", f"{n} rotated {ang:.4f} deg, requested |{angle_abs}|"))
    return out
