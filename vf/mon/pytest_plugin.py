"""pytest plugin: runs the repository's own tests with the geometry monitors on (exploration aid, not a registered
check).  usage: cd /repo && PYTHONPATH=/repo:/verif VF_EVENTS=/var/tmp/suite_events.jsonl /venv/bin/python -m pytest
-p vf.mon.pytest_plugin tests/core_test.py"""
import json
import os


def pytest_configure(config):
    from vf import common
    common.ensure_deps()
    from vf.mon import geom
    geom.install()
    if os.environ.get("VF_CELLMON"):
        from vf.mon import cellmon
        cellmon.install()


def pytest_runtest_teardown(item, nextitem):
    from vf.mon import geom
    ev, counts = geom.drain()
    rec = {"test": item.nodeid, "counts": counts,
           "events": [{k: (v if isinstance(v, (str, int, float, bool, type(None))) else str(v)) for k, v in e.items()}
                      for e in ev[:50]], "n_events": len(ev)}
    if os.environ.get("VF_CELLMON"):
        from vf.mon import cellmon
        cev = cellmon.drain() if hasattr(cellmon, "drain") else None
        rec["cell_events"] = str(cev)[:2000]
    with open(os.environ.get("VF_EVENTS", "/var/tmp/suite_events.jsonl"), "a") as fh:
        fh.write(json.dumps(rec) + "\n")
