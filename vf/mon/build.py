"""Drive the real pipeline stages step by step (for direct-drive workloads on live objects)."""
import io as _io
import logging


def biomolecule_from_text(text, hydrogens=True, repair=True, debump_setup=True, neutraln=False, neutralc=False):
    """Real objects through the same stage sequence as main.non_trivial, stopping before debumping."""
    from pdb2pqr import debump, pdb
    from pdb2pqr import io as pio
    from pdb2pqr.biomolecule import Biomolecule
    from pdb2pqr.cells import Cells
    from pdb2pqr.config import CELL_SIZE

    definition = pio.get_definitions()
    pdblist, _err = pdb.read_pdb(_io.StringIO(text))
    bio = Biomolecule(pdblist, definition)
    bio.set_termini(neutraln=neutraln, neutralc=neutralc)
    bio.update_bonds()
    if repair and bio.num_missing_heavy:
        bio.repair_heavy()
    bio.update_ss_bridges()
    if hydrogens:
        bio.add_hydrogens()
    deb = debump.Debump(bio)
    if debump_setup:
        deb.cells = Cells(CELL_SIZE)
        deb.cells.assign_cells(bio)
        bio.calculate_dihedral_angles()
        bio.set_donors_acceptors()
        bio.update_internal_bonds()
        bio.set_reference_distance()
    return bio, deb, definition


def quiet():
    logging.getLogger().setLevel(logging.ERROR)
