"""In-vivo monitor of the neighbour cell map: every get_near_cells call made by the pipeline is compared with a
brute-force search over the atoms the biomolecule currently owns.

Events: miss  - a live atom closer than the cell size that the query did not return
        ghost - a returned atom that no residue owns any more
Each event carries the call site (name of the calling function) - that is the key known findings are listed by.
"""
import sys

FLIPRES = ("ASN", "GLN", "HIS", "HID", "HIE", "HIP", "HSD", "HSE", "HSP")


def cell_key(atom, size):
    """Independent statement of the documented cell of a coordinate: floor to the cell grid (half-open boxes)."""
    import math
    return tuple(int(math.floor(c / size)) * size for c in (atom.x, atom.y, atom.z))


FLIPGROUP = {"HIS": {"ND1", "CD2", "CE1", "NE2", "HD1", "HD2", "HE1", "HE2"},
             "ASN": {"OD1", "ND2", "HD21", "HD22"}, "GLN": {"OE1", "NE2", "HE21", "HE22"}}
ALCOHOL_H = {"SER": "HG", "CYS": "HG", "THR": "HG1", "TYR": "HH"}


def role(atom):
    """Which optimisation bookkeeping family an atom belongs to (narrow on purpose: anything else is 'other')."""
    r = atom.residue
    name = getattr(r, "name", "?")
    ref = getattr(getattr(r, "reference", None), "name", name)
    base = {"HID": "HIS", "HIE": "HIS", "HIP": "HIS", "HSD": "HIS", "HSE": "HIS", "HSP": "HIS", "ASH": "ASP",
            "GLH": "GLU", "CYX": "CYS", "CYM": "CYS", "TYM": "TYR"}.get(name, name)
    an = atom.name[:-4] if atom.name.endswith("FLIP") else atom.name
    if an.startswith("LP"):
        return "LP"
    h = "H" if an.startswith("H") else "heavy"
    if name in ("WAT", "HOH"):
        return f"water-{h}"
    if base in FLIPGROUP and an in FLIPGROUP[base]:
        return f"flipres-{h}"
    if ALCOHOL_H.get(base) == an:
        return "alcoholic-H"
    if (base == "ASP" and an.startswith("HD")) or (base == "GLU" and an.startswith("HE")) or an.startswith("HO"):
        return "carboxylic-H"
    return f"other-{h}"


def registration(atom, cells):
    """registered-ok | unregistered | stale (registered under a cell that does not adjoin its coordinates)"""
    if atom.cell is None:
        return "unregistered"
    if atom not in cells.cellmap.get(atom.cell, []):
        return "unregistered"
    k = cell_key(atom, cells.cellsize)
    # the code's own boxes are (k, k+size] for negatives; allow one-cell slack only on exact boundaries
    if all(abs(a - b) <= 0 for a, b in zip(k, atom.cell)):
        return "registered-ok"
    onb = all((a == b) or (abs(a - b) == cells.cellsize and (c / cells.cellsize) == int(c / cells.cellsize))
              for a, b, c in zip(k, atom.cell, (atom.x, atom.y, atom.z)))
    return "registered-ok" if onb else "stale"


STATE = {"installed": False, "events": [], "queries": 0, "by_site": {}, "bio": {}, "orig": {}}
MAX_EVENTS = 400


def _live_atoms(bio):
    for chain in bio.chains:
        for residue in chain.residues:
            yield from residue.atoms


def install():
    if STATE["installed"]:
        return
    from pdb2pqr import cells as cmod
    orig_assign = cmod.Cells.assign_cells
    orig_near = cmod.Cells.get_near_cells
    STATE["orig"] = {"assign": orig_assign, "near": orig_near}

    def assign_cells(self, biomolecule):
        self._vf_bio = biomolecule
        return orig_assign(self, biomolecule)

    # a cell map may also be filled atom by atom without assign_cells(): the reference population is then the
    # biomolecule of the run in progress (the last one constructed)
    from pdb2pqr import biomolecule as bmod
    orig_binit = bmod.Biomolecule.__init__

    def binit(self, *a, **k):
        STATE["current_bio"] = self
        return orig_binit(self, *a, **k)

    bmod.Biomolecule.__init__ = binit

    def get_near_cells(self, atom):
        result = orig_near(self, atom)
        bio = getattr(self, "_vf_bio", None) or STATE.get("current_bio")
        if bio is None:
            return result
        STATE["queries"] += 1
        fr = sys._getframe(1)
        site = fr.f_code.co_name
        STATE["by_site"][site] = STATE["by_site"].get(site, 0) + 1
        size = self.cellsize
        got = {id(a) for a in result}
        ax, ay, az = atom.x, atom.y, atom.z
        live_ids = set()
        for b in _live_atoms(bio):
            live_ids.add(id(b))
            if b is atom:
                continue
            dx = b.x - ax
            if dx >= size or dx <= -size:
                continue
            dy = b.y - ay
            if dy >= size or dy <= -size:
                continue
            dz = b.z - az
            d2 = dx * dx + dy * dy + dz * dz
            if d2 < size * size and id(b) not in got and len(STATE["events"]) < MAX_EVENTS:
                STATE["events"].append({"kind": "miss", "site": site, "size": size, "dist": d2 ** 0.5,
                                        "cause": registration(b, self) if registration(b, self) != "registered-ok"
                                        else ("query-" + registration(atom, self)),
                                        "role": role(b) if registration(b, self) != "registered-ok" else role(atom),
                                        "query": f"{atom.residue} {atom.name}", "query_cell": atom.cell,
                                        "other": f"{b.residue} {b.name}", "other_cell": b.cell,
                                        "other_xyz": (b.x, b.y, b.z), "query_xyz": (ax, ay, az)})
        for a in result:
            if id(a) not in live_ids and len(STATE["events"]) < MAX_EVENTS:
                STATE["events"].append({"kind": "ghost", "site": site, "size": size, "cause": "removed-still-registered",
                                        "role": role(a),
                                        "query": f"{atom.residue} {atom.name}",
                                        "other": f"{a.residue} {a.name}", "other_cell": a.cell})
        return result

    cmod.Cells.assign_cells = assign_cells
    cmod.Cells.get_near_cells = get_near_cells
    STATE["installed"] = True


def drain():
    ev, q, sites = STATE["events"], STATE["queries"], STATE["by_site"]
    STATE["events"], STATE["queries"], STATE["by_site"] = [], 0, {}
    return ev, q, sites
