"""Text-level PDB mutators (C07): bookkeeping records, blank/junk lines, line endings, truncation, alt-locs,
insertion codes, numbering and chain-id variations, multiple models.  All keep residues contiguous and keep the
coordinate records themselves well-formed."""
import copy

from . import pdbfmt

JUNK = ["FOOBAR this is not a PDB record", "JUNK", "XXXXXX 1 2 3", "REMARK 999 free text with numbers 1.0 2.0 3.0",
        "CONECT    1    2", "HETNAM     LIG LIGAND", "ANISOU    1  N   ALA A   1     2406   1892   1614    198    519   -328       N",
        "SIGATM    1  N   ALA A   1       0.010   0.020   0.030  0.00  0.00           N", "MASTER        0    0    0    0",
        "CRYST1   50.000   50.000   50.000  90.00  90.00  90.00 P 1           1", "SEQRES   1 A    3  ALA GLY SER",
        "HEADER    TEST                                    01-JAN-00   XXXX", "TITLE     A TITLE", "COMPND    MOL_ID: 1;",
        # a HET record with a blank atom count (its parser rejects it) and truncated stray lines whose names are
        # prefixes of coordinate / bookkeeping record names
        "HET    LIG  A 301           ligand", "HETA", "ATO", "MOD", "HETAT", "TE", "HET"]

MUTATIONS = ["blank_lines", "ws_lines", "junk", "crlf", "truncate", "ter_variants", "end_missing", "end_repeated",
             "end_midfile", "models", "atoms_before_model", "altloc_interleaved", "altloc_blocked", "icodes",
             "negative_numbers", "blank_chain", "repeated_chain", "water_as_atom", "no_final_newline", "leading_records",
             "endmdl_only", "tabs_in_junk", "big_serials", "het_tail_same_numbers"]


def apply(items, muts, rng):
    """items: list of atom dicts / raw strings (TER, END).  Returns (text, info) - text is the mutated file."""
    items = copy.deepcopy(items)
    info = {"muts": list(muts)}
    width = 80
    eol = "\n"
    final_eol = True
    atoms_idx = [i for i, it in enumerate(items) if isinstance(it, dict)]

    if "altloc_interleaved" in muts or "altloc_blocked" in muts:
        blocked = "altloc_blocked" in muts
        out, cur, curkey = [], [], None

        labels = rng.choice([("A", "B"), ("A", "B"), ("B", "A"), ("B", "C"), ("1", "2"), ("X", "A")])
        info["altloc_labels"] = labels

        def flush():
            if not cur:
                return
            if rng.random() < 0.5:
                chosen = [a for a in cur if a["name"] not in ("N", "CA", "C") and rng.random() < 0.5]
                ids = {id(a) for a in chosen}
                # some atoms carry a lone non-blank label without a partner record
                lone = {id(a) for a in cur if id(a) not in ids and a["name"] not in ("N", "CA", "C") and rng.random() < 0.1}
                if blocked:
                    out.extend(dict(a, alt=labels[0]) if id(a) in ids else dict(a, alt=labels[1]) if id(a) in lone else a
                               for a in cur)
                    for a in chosen:
                        out.append(dict(a, alt=labels[1], x=a["x"] + 0.7, y=a["y"] - 0.4, z=a["z"] + 0.3, occ=0.4))
                else:
                    for a in cur:
                        if id(a) in ids:
                            out.append(dict(a, alt=labels[0], occ=0.6))
                            out.append(dict(a, alt=labels[1], x=a["x"] + 0.7, y=a["y"] - 0.4, z=a["z"] + 0.3, occ=0.4))
                        elif id(a) in lone:
                            out.append(dict(a, alt=labels[1], occ=0.5))
                        else:
                            out.append(a)
            else:
                out.extend(cur)
            cur.clear()

        for it in items:
            if isinstance(it, dict):
                k = (it["chain"], it["resi"], it["icode"])
                if k != curkey:
                    flush()
                    curkey = k
                cur.append(it)
            else:
                flush()
                curkey = None
                out.append(it)
        flush()
        items = out
    if "icodes" in muts:
        keys = []
        for it in items:
            if isinstance(it, dict):
                k = (it["chain"], it["resi"], it["icode"])
                if not keys or keys[-1] != k:
                    keys.append(k)
        remap = {}
        for i, k in enumerate(keys):
            if i > 0 and rng.random() < 0.3 and keys[i - 1][0] == k[0]:
                prev = remap.get(keys[i - 1], keys[i - 1])
                letters = "ABCDEFGHIJKLMNOPQRSTUVWXY"
                nxt = "A" if prev[2] == "" else letters[letters.index(prev[2]) + 1] if prev[2] in letters[:-1] else None
                if nxt is not None:          # never two residues with one identity (chain, number, code)
                    remap[k] = (k[0], prev[1], nxt)
        for it in items:
            if isinstance(it, dict):
                k = (it["chain"], it["resi"], it["icode"])
                if k in remap:
                    it["resi"], it["icode"] = remap[k][1], remap[k][2]
    if "negative_numbers" in muts:
        shift = rng.choice([-20, -105, -7])
        for it in items:
            if isinstance(it, dict):
                it["resi"] += shift
    if "blank_chain" in muts:
        for it in items:
            if isinstance(it, dict):
                it["chain"] = ""
    if "repeated_chain" in muts:
        chains = []
        for it in items:
            if isinstance(it, dict) and it["chain"] not in chains:
                chains.append(it["chain"])
        if len(chains) >= 2:
            # second chain takes the id of the first but keeps distinct residue numbers
            for it in items:
                if isinstance(it, dict) and it["chain"] == chains[1]:
                    it["chain"] = chains[0]
                    it["resi"] += 500
    if "het_tail_same_numbers" in muts:
        # the usual PDB layout polymer A, polymer B, hetero groups of A, hetero groups of B - with the hetero groups /
        # waters of different chains carrying the same residue numbers (NA A 101 directly followed by NA B 101)
        chains = []
        for it in items:
            if isinstance(it, dict) and it["resn"] not in ("HOH", "WAT") and it["chain"] and it["chain"] not in chains:
                chains.append(it["chain"])
        if len(chains) >= 2:
            tail = []
            last = max(i for i, it in enumerate(items) if isinstance(it, dict))
            x0 = max(it["x"] for it in items if isinstance(it, dict)) + 12.0
            for k in range(rng.randint(1, 2)):
                for c, ch in enumerate(chains[:3]):
                    kind = rng.choice(["ion", "water"])
                    tail.append(dict(items[last], rec="HETATM", name="NA" if kind == "ion" else "O",
                                     resn="NA" if kind == "ion" else "HOH", chain=ch, resi=701 + k, icode="", alt="",
                                     x=x0 + 4.0 * c, y=5.0 * k, z=-7.0, elem="NA" if kind == "ion" else "O"))
            e = next((i for i, it in enumerate(items) if it == "END"), len(items))
            items[e:e] = tail + ["TER"]
            info["het_tail_atoms"] = len(tail)
    if "water_as_atom" in muts:
        choice = {}
        for it in items:
            if isinstance(it, dict) and it["resn"] in ("HOH", "WAT"):
                k = (it["chain"], it["resi"], it["icode"])
                if k not in choice:      # one record type and one residue name per water molecule
                    choice[k] = (rng.choice(["ATOM", "HETATM"]), rng.choice(["HOH", "WAT"]))
                it["rec"], it["resn"] = choice[k]
    natoms = sum(1 for it in items if isinstance(it, dict))
    pdbfmt.renumber(items, rng.choice([9990, max(1, 10000 - natoms // 2), 99999 - natoms // 2])
                    if "big_serials" in muts else 1)

    lines = [pdbfmt.fmt_atom(it) if isinstance(it, dict) else it for it in items]
    nmodels = 1
    if "end_missing" in muts:
        lines = [ln for ln in lines if ln != "END"]
    if "ter_variants" in muts:
        new = []
        last_atom = None
        for ln in lines:
            if ln == "TER" and last_atom is not None:
                style = rng.choice(["bare", "full", "padded"])
                if style == "full":
                    ln = "TER   %5d      %3s %1s%4d" % (99999, last_atom[17:20], last_atom[21], int(last_atom[22:26]))
                elif style == "padded":
                    ln = "TER" + " " * 77
            elif ln.startswith(("ATOM", "HETATM")):
                last_atom = ln
            new.append(ln)
        lines = new
    if "models" in muts or "atoms_before_model" in muts or "endmdl_only" in muts:
        body = [ln for ln in lines if ln != "END"]
        nmodels = rng.randint(2, 4)
        out = []
        if "atoms_before_model" in muts:
            # hetero atoms listed before MODEL 1 (outside any model)
            out.append("HETATM    1  O   HOH W 900      55.000  55.000  55.000  1.00  0.00           O")
            info["pre_model_atoms"] = 1
        scheme = rng.choice(["1..n", "1..n", "9..", "2,10", "descending"])
        numbers = {"1..n": list(range(1, nmodels + 1)), "9..": list(range(9, 9 + nmodels)),
                   "2,10": [2, 10, 11, 12][:nmodels], "descending": list(range(nmodels, 0, -1))}[scheme]
        info["model_numbers"] = numbers
        # how a model is closed: ENDMDL (the format's way), or nothing at all (ENDMDL lines stripped from an ensemble,
        # files written by some trajectory tools: the next MODEL record is the only boundary)
        closing = rng.choice(["ENDMDL", "ENDMDL", "none"])
        info["model_closing"] = closing
        for m in range(nmodels):
            out.append("MODEL     %4d" % numbers[m])
            for ln in body:
                if m and ln.startswith(("ATOM", "HETATM")):
                    a = pdbfmt.parse_atom_line(ln)
                    ln = ln[:30] + "%8.3f%8.3f%8.3f" % (a["x"] + 1.5 * m, a["y"] - 0.5 * m, a["z"] + 0.25 * m) + ln[54:]
                out.append(ln)
            if closing == "ENDMDL" or "endmdl_only" in muts:
                out.append("ENDMDL")
        out.append("END")
        if "endmdl_only" in muts:
            out = [ln for ln in out if not ln.startswith("MODEL")]
        lines = out
    if "end_repeated" in muts:
        lines = lines + ["END"] * rng.randint(1, 2)
    if "end_midfile" in muts:
        idx = [i for i, ln in enumerate(lines) if ln.startswith(("ATOM", "HETATM"))]
        # between two residues of the first model
        cands = [i for i in idx[1:] if lines[i][21:27] != lines[i - 1][21:27] and lines[i - 1].startswith(("ATOM", "HETATM"))]
        first_model_end = next((i for i, ln in enumerate(lines) if ln.startswith("ENDMDL")), len(lines))
        cands = [i for i in cands if i < first_model_end]
        if cands:
            lines.insert(rng.choice(cands), "END")
    if "leading_records" in muts:
        lines = rng.sample(JUNK, 4) + rng.sample(JUNK[-7:], 2) + lines
    if "junk" in muts or "tabs_in_junk" in muts:
        for _ in range(rng.randint(1, 6)):
            j = rng.choice(JUNK)
            if "tabs_in_junk" in muts:
                j = j.replace(" ", "\t", 2)
            lines.insert(rng.randrange(len(lines) + 1), j)
    if "truncate" in muts:
        w = rng.choice([54, 60, 66, 78])
        lines = [ln[:w].rstrip() if ln.startswith(("ATOM", "HETATM")) and rng.random() < 0.8 else ln for ln in lines]
        info["width"] = w
    if "blank_lines" in muts:
        for _ in range(rng.randint(1, 4)):
            lines.insert(rng.choice([0, 1, len(lines) // 2, len(lines) - 1, rng.randrange(len(lines) + 1)]), "")
    if "ws_lines" in muts:
        for _ in range(rng.randint(1, 3)):
            lines.insert(rng.randrange(len(lines) + 1), rng.choice(["   ", " ", "\t", " " * 80]))
    if "crlf" in muts:
        eol = "\r\n"
    if "no_final_newline" in muts:
        final_eol = False
    text = eol.join(lines) + (eol if final_eol else "")
    info["nmodels"] = nmodels
    return text, info
