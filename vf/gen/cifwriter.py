"""Independent PDB-items -> mmCIF writer (atom_site loop in wwPDB layout + optional header categories).

items: the generators' list of atom dicts / raw strings; models separated by 'MODEL'/'ENDMDL' strings."""


def q(v):
    s = str(v)
    if s == "":
        return "."
    if any(c in s for c in " \t") or s[0] in "_#$'\"[];" or "'" in s or '"' in s:
        if "'" not in s or all(not (s[i] == "'" and i + 1 < len(s) and s[i + 1] in " \t") for i in range(len(s))):
            if "'" in s:
                return '"' + s + '"' if '"' not in s else "\n;" + s + "\n;"
            return "'" + s + "'"
        return '"' + s + '"'
    return s


KEEP = ("entry", "pdbx_database_status", "audit_author", "cell", "symmetry", "entity", "entity_src_gen", "exptl",
        "struct", "struct_keywords", "database_PDB_matrix", "atom_sites")
_BOILER = {}


def boilerplate():
    """Non-coordinate categories that read_cif dereferences unconditionally, copied from the repository's own
    tests/data/1FAS.cif (they do not influence the computed model)."""
    if "t" not in _BOILER:
        import re
        from ..common import REPO
        text = (REPO / "tests" / "data" / "1FAS.cif").read_text()
        blocks = []
        for b in text.split("\n#"):
            m = re.search(r"^_([A-Za-z0-9_]+)\.", b, re.M)
            if m and m.group(1) in KEEP:
                blocks.append(b.strip("\n"))
        _BOILER["t"] = "\n#\n".join(blocks) + "\n#"
    return _BOILER["t"]


def write(items, missing_alt=".", missing_ins="?", missing_chg="?", label_auth="same", header=True, entry="XXXX",
          decimals=3, layout="wwpdb", rng=None):
    """layout: which _atom_site items are written and in which order - 'wwpdb' (the archive's 21 items), 'short'
    (without the redundant auth_comp_id / auth_atom_id), 'noentity' (without label_entity_id / label_seq_id),
    'extra' (additional esd items with '?'), 'esd' (each coordinate followed by its esd item), 'shuffled' (all items in a random order; needs rng)."""
    """label_auth: 'same' (label ids = auth ids) | 'wwpdb' (label_asym_id per entity instance: polymer chains keep
    their letter, every hetero/water group gets a fresh label_asym_id; label_seq_id = 1..n per chain)."""
    out = [f"data_{entry}", "#"]
    if header:
        out.append(boilerplate())
    cols = ["group_PDB", "id", "type_symbol", "label_atom_id", "label_alt_id", "label_comp_id", "label_asym_id",
            "label_entity_id", "label_seq_id", "pdbx_PDB_ins_code", "Cartn_x", "Cartn_y", "Cartn_z", "occupancy",
            "B_iso_or_equiv", "pdbx_formal_charge", "auth_seq_id", "auth_comp_id", "auth_asym_id", "auth_atom_id",
            "pdbx_PDB_model_num"]
    allcols = list(cols)
    if layout == "short":
        cols = [c for c in cols if c not in ("auth_comp_id", "auth_atom_id")]
    elif layout == "noentity":
        cols = [c for c in cols if c not in ("label_entity_id", "label_seq_id")]
    elif layout == "extra":
        k = cols.index("occupancy")
        cols = cols[:k] + ["Cartn_x_esd", "Cartn_y_esd", "Cartn_z_esd"] + cols[k:]
    elif layout == "esd":
        # each coordinate followed by its standard uncertainty (CIF gives loop columns no fixed order)
        k = cols.index("Cartn_x")
        cols = cols[:k] + ["Cartn_x", "Cartn_x_esd", "Cartn_y", "Cartn_y_esd", "Cartn_z", "Cartn_z_esd"] + cols[k + 3:]
    elif layout == "shuffled":
        cols = list(cols)
        rng.shuffle(cols)
    out.append("loop_")
    out += ["_atom_site." + c for c in cols]
    model = 1
    seen_model = False
    label_ids = {}
    next_het = [0]
    seqno = {}
    fmt = "%." + str(decimals) + "f"
    lastres = {}
    hetlabels = "CDEFGHIJKLMNOPQRSTUVWXYZ"
    for it in items:
        if isinstance(it, str):
            if it.startswith("MODEL"):
                try:
                    model = int(it[5:].strip())      # the model number written in the PDB encoding
                except ValueError:
                    model = model + 1 if seen_model else model
                seen_model = True
            continue
        a = it
        chain = a["chain"] or "A"
        if label_auth == "same":
            lab_asym = chain
            lab_seq = a["resi"]
        else:
            if a["rec"] == "HETATM":
                key = (model, chain, a["resi"], a["icode"], a["resn"])
                if key not in label_ids:
                    label_ids[key] = hetlabels[next_het[0] % len(hetlabels)] + ("" if next_het[0] < len(hetlabels) else "A")
                    next_het[0] += 1
                lab_asym = label_ids[key]
                lab_seq = "."
            else:
                lab_asym = chain
                rk = (model, chain, a["resi"], a["icode"])
                if lastres.get((model, chain)) != rk:
                    seqno[(model, chain)] = seqno.get((model, chain), 0) + 1
                    lastres[(model, chain)] = rk
                lab_seq = seqno[(model, chain)]
        row = [a["rec"], a["serial"], a["elem"] or "X", q(a["name"]), a["alt"] or missing_alt, a["resn"], lab_asym, 1,
               lab_seq, a["icode"] or missing_ins, fmt % a["x"], fmt % a["y"], fmt % a["z"], "%.2f" % a["occ"],
               "%.2f" % a["b"], a["chg"] or missing_chg, a["resi"], a["resn"], chain, q(a["name"]), model]
        byname = dict(zip(allcols, row))
        if layout == "esd":
            # refined structures carry numeric uncertainties
            byname.update({"Cartn_x_esd": "0.012", "Cartn_y_esd": "0.009", "Cartn_z_esd": "0.015"})
        out.append(" ".join(str(byname.get(c, "?")) for c in cols))
    out.append("#")
    return "\n".join(out) + "\n"
