"""Shared whole-pipeline workloads: JSON-able case specs and their deterministic materialisation.

spec keys: w (synth|frag), seed, ff, opts (CLI tokens), plus generator parameters.  materialise(spec) returns
{"text", "truth", "meta"}; truth is the generator's ground truth per residue in file order (chain, resi, icode,
resn, base, kind, pos) - oracles use it instead of trusting the code's own notion of chain ends.
"""
import random

import numpy as np

from ..common import FFS
from ..ref import topology as topo
from . import fragments, pdbfmt
from . import structures as S

NA_FFS = {"AMBER": "both", "CHARMM": "both", "TYL06": "both", "PARSE": "rna"}
VARIANT_OF = {"ASP": ["ASH"], "GLU": ["GLH"], "CYS": ["CYM", "CYX"], "LYS": ["LYN"], "TYR": ["TYM"],
              "HIS": ["HIP", "HID", "HIE", "HSP", "HSD", "HSE"], "ARG": ["AR0"]}
CHAIN_IDS = "ABCDEFGHIJKLMNOPQRSTUVWXYZabcdefghijklmnopqrstuvwxyz0123456789"


def min_interchain(chains):
    """Smallest heavy-atom distance between atoms of different chains."""
    pts = [np.array([x for r in ch for n, x in r["atoms"]]) for ch in chains]
    best = 1e9
    for i in range(len(pts)):
        for j in range(i):
            if len(pts[i]) and len(pts[j]):
                d = np.sqrt(((pts[i][:, None, :] - pts[j][None, :, :]) ** 2).sum(-1)).min()
                best = min(best, d)
    return best


def pack(chains, rng, dense):
    """Place chains; dense=True allows interpenetrating bounding spheres but no heavy-atom pair < 2.7 A."""
    if not dense or len(chains) < 2:
        return S.scatter(chains, rng, gap=rng.choice([5.0, 8.0]))
    for _ in range(30):
        S.scatter(chains, rng, gap=rng.uniform(-9.0, -3.0))
        if min_interchain(chains) > 2.7:
            return chains
    return S.scatter(chains, rng, gap=5.0)


CROWDABLE = ("ARG", "LYS", "GLU", "GLN", "MET", "ILE", "LEU", "ASP", "ASN", "PHE", "TYR", "HIS", "TRP", "THR", "SER",
             "VAL", "CYS")


def h_sites(residue):
    """Template positions of the side-chain hydrogens of a generated residue (template placed on its N, CA, C)."""
    base = topo.base_of(residue["resn"])
    if base is None:
        return []
    tpl = topo.template_coords(base)
    have = dict(residue["atoms"])
    if not all(k in have for k in ("N", "CA", "C")):
        return []
    from ..ref.rigid import kabsch
    R, t = kabsch(np.array([tpl["N"], tpl["CA"], tpl["C"]]), np.array([have["N"], have["CA"], have["C"]]))
    return [(n, R @ np.array(x) + t) for n, x in tpl.items() if n.startswith("H") and n not in ("H", "HA", "HA2", "HA3")]


def crowd(chains, rng, prob, many=False):
    """Obstacle waters right where side-chain hydrogens will be built (0.6-1.2 A from the hydrogen site, >= 1.9 A
    from every input heavy atom): the added hydrogens clash, so the residue is debumped through several torsions."""
    heavy = np.array([x for ch in chains for r in ch for n, x in r["atoms"] if not n.startswith("H")])
    out = []
    for ch in chains:
        for r in ch:
            if r["kind"] != "aa" or topo.base_of(r["resn"]) not in CROWDABLE or rng.random() > prob:
                continue
            sites = h_sites(r)
            rng.shuffle(sites)
            placed = 0
            limit = rng.choice([4, 6, 9]) if many else rng.choice([1, 2, 3])
            for _n, hpos in sites * (2 if many else 1):
                if placed >= limit:
                    break
                for _try in range(12):
                    d = np.array([rng.gauss(0, 1) for _ in range(3)])
                    o = hpos + d / np.linalg.norm(d) * rng.uniform(0.6, 1.2)
                    pts = np.vstack([heavy] + [np.array([w["atoms"][0][1]]) for w in out]) if out else heavy
                    if np.min(np.linalg.norm(pts - o, axis=1)) >= 1.9:
                        out.append({"resn": "HOH", "kind": "wat", "atoms": [("O", o)]})
                        placed += 1
                        break
    return out


def polar_h_sites(residue, first):
    """Template positions of the hydrogens on N / O / S donors: backbone H, the amine hydrogens H2 / H3 of an
    N-terminal residue (NTERM patch), side-chain OH / NH / SH hydrogens."""
    base = topo.base_of(residue["resn"])
    if base is None:
        return []
    have = dict(residue["atoms"])
    if not all(k in have for k in ("N", "CA", "C")):
        return []
    d = topo.expected_def(base, ["NTERM"] if first else [])
    from ..ref.rigid import kabsch
    R, t = kabsch(np.array([d.atoms[k]["xyz"] for k in ("N", "CA", "C")]), np.array([have[k] for k in ("N", "CA", "C")]))
    out = []
    for n, a in d.atoms.items():
        if n.startswith("H") and any(b[0] in "NOS" for b in a["bonds"] if b in d.atoms):
            out.append((n, R @ np.array(a["xyz"]) + t))
    return out


def carbon_obstacles(chains, rng, prob, limit=3):
    """Single complete ALA residues (own chains) whose CB sits 0.9-1.3 A from the site of a *polar* hydrogen that will
    be built (backbone H, N-terminal H2/H3, hydroxyl / amine hydrogens): a carbon is no hydrogen-bond acceptor, so
    the debumper sees a clash there (an obstacle water would count as a hydrogen bond)."""
    heavy = [x for ch in chains for r in ch for n, x in r["atoms"] if not n.startswith("H")]
    out = []
    for ch in chains:
        for k, r in enumerate(ch):
            if len(out) >= limit or r["kind"] != "aa" or rng.random() > prob:
                continue
            sites = polar_h_sites(r, first=(k == 0))
            if not sites:
                continue
            # N-terminal amine hydrogens first when present
            sites.sort(key=lambda s_: 0 if s_[0] in ("H2", "H3") else 1)
            _n, hpos = sites[0] if rng.random() < 0.6 else rng.choice(sites)
            for _try in range(30):
                d = np.array([rng.gauss(0, 1) for _ in range(3)])
                o = hpos + d / np.linalg.norm(d) * rng.uniform(0.9, 1.3)
                ala = S.peptide(["ALA"], rng, hydrogens="none", cterm_oxt=True)
                from ..ref.rigid import random_rotation
                S.transform(ala, random_rotation(rng), np.zeros(3))
                cb = dict(ala[0]["atoms"])["CB"]
                S.transform(ala, np.eye(3), o - cb)
                pts = np.array([x for n, x in ala[0]["atoms"]])
                allh = np.array(heavy + [x for a2 in out for n, x in a2[0]["atoms"]])
                dmin = np.min(np.linalg.norm(allh[None, :, :] - pts[:, None, :], axis=2))
                if dmin >= 2.2:
                    out.append(ala)
                    break
    return out


def synth(spec):
    rng = random.Random(spec["seed"])
    ff = spec["ff"]
    p = spec.get("p", {})
    nch = p.get("nchains") or rng.choice([1, 1, 2, 2, 3, 4])
    if p.get("seqs"):
        nch = len(p["seqs"])
    chains = []
    kinds = []
    for c in range(nch):
        if p.get("seqs"):
            seq = p["seqs"][c]
            hyd = rng.choice(p.get("hydrogens", ["none", "none", "all", "side"]))
            chains.append(S.peptide(seq, rng, hydrogens=hyd, cterm_oxt=rng.random() < p.get("oxt_prob", 0.8)))
            kinds.append("aa")
            continue
        na_ok = NA_FFS.get(ff) if p.get("na", True) else None
        if na_ok and rng.random() < p.get("na_prob", 0.15):
            dna = na_ok == "both" and rng.random() < 0.5
            letters = "ACGT" if dna else "ACGU"
            seq = [rng.choice(letters) for _ in range(rng.randint(2, 5))]
            chains.append(S.nucleic(seq, rng, dna=dna, first_phosphate=rng.random() < 0.7))
            kinds.append("na")
            continue
        n = rng.randint(p.get("minlen", 2), p.get("maxlen", 8))
        seq = []
        for _ in range(n):
            r = rng.choice(p.get("pool") or topo.AMINO)
            if r in VARIANT_OF and rng.random() < p.get("variant_prob", 0.2):
                v = rng.choice(VARIANT_OF[r])
                if v not in p.get("no_variants", ()):
                    r = v
            seq.append(r)
        # chain ends drawn from their own pools (separate generator: the rest of the structure stays as it was)
        if p.get("nterm_pool"):
            seq[0] = random.Random(spec["seed"] * 7 + len(chains)).choice(p["nterm_pool"])
        if p.get("cterm_pool"):
            seq[-1] = random.Random(spec["seed"] * 11 + len(chains)).choice(p["cterm_pool"])
        hyd = rng.choice(p.get("hydrogens", ["none", "none", "none", "all", "side", "some"]))
        amide = bool(p.get("nterm_amide_prob")) and hyd in ("all", "some") and rng.random() < p["nterm_amide_prob"]
        chains.append(S.peptide(seq, rng, hydrogens=hyd, cterm_oxt=rng.random() < p.get("oxt_prob", 0.8),
                                nterm_amide=amide))
        kinds.append("aa")
    dense = rng.random() < p.get("dense_prob", 0.5)
    pack(chains, rng, dense)
    nwat = rng.choice(p.get("waters", [0, 0, 2, 5]))
    wat = crowd([c for c, k in zip(chains, kinds) if k == "aa"], rng, p["crowd_prob"],
                many=rng.random() < p.get("crowd_heavy_prob", 0.0)) if p.get("crowd_prob") else []
    for _ in range(nwat):
        for _try in range(20):
            ch = rng.choice(chains)
            r = rng.choice(ch)
            anchor = rng.choice(r["atoms"])[1]
            w = S.water(anchor, rng, spread=3.5, with_h=rng.choice([0, 0, 0, 1, 2]), resn=rng.choice(["HOH", "HOH", "WAT"]))
            o = w["atoms"][0][1]
            allpts = np.array([x for c2 in chains for r2 in c2 for _, x in r2["atoms"]] +
                              [x for w2 in wat for _, x in w2["atoms"]])
            if np.min(np.linalg.norm(allpts - o, axis=1)) > 2.5:
                wat.append(w)
                break
    obst = carbon_obstacles([c for c, k in zip(chains, kinds) if k == "aa"], rng, p["carbon_obstacle_prob"]) \
        if p.get("carbon_obstacle_prob") else []
    entries = []
    ids = list(CHAIN_IDS[:nch])
    for c, ch in enumerate(chains):
        start = rng.choice([1, 1, 5, 100, -3, 995]) if p.get("numbering", True) else 1
        entries.append({"id": ids[c], "start": start, "residues": ch})
    for k, ala in enumerate(obst):
        entries.append({"id": CHAIN_IDS[nch + k], "start": 900 + k, "residues": ala})
    if wat:
        how = rng.choice(["own_chain", "blank_chain", "last_chain"])
        if how == "own_chain":
            entries.append({"id": "W", "start": 201, "residues": wat})
        elif how == "blank_chain":
            entries.append({"id": "", "start": 201, "residues": wat})
        else:
            entries.append({"id": ids[-1], "start": 2001, "residues": wat})
    items, truth = S.assemble(entries)
    damage(items, truth, rng, p.get("damage_prob", 0.0))
    return {"text": pdbfmt.to_text(items), "truth": truth, "items": items,
            "meta": {"dense": dense, "kinds": kinds, "waters": len(wat)}}


def _shell(base):
    """bond distance of every side-chain heavy atom from CA (own topology parse)."""
    res, _, _ = topo.load()
    d = res[base]
    dist = {"CA": 0}
    todo = ["CA"]
    while todo:
        cur = todo.pop(0)
        for b in d.atoms[cur]["bonds"]:
            if b in d.atoms and b not in dist and not b.startswith("H") and b not in ("N", "C"):
                dist[b] = dist[cur] + 1
                todo.append(b)
    return dist


def damage(items, truth, rng, prob, budget_frac=0.06):
    """Truncate some side chains: every heavy atom at bond distance >= k from CA (k >= 2, so CB stays) is deleted
    together with the hydrogens of the residue's side chain - the realistic 'missing distal atoms' pattern that
    triggers heavy-atom repair.  Stays under the code's repair limit (10 % of the template heavy atoms)."""
    if prob <= 0:
        return
    res, _, _ = topo.load()
    total = sum(len(res[t["base"]].heavy()) for t in truth if t["kind"] == "aa")
    nchains = len({t["chain"] for t in truth if t["kind"] == "aa"})
    budget = int(budget_frac * total) - nchains
    doomed = {}
    for t in truth:
        if t["kind"] == "aa" and t["base"] not in ("GLY", "ALA", "PRO") and rng.random() < prob:
            sh = _shell(t["base"])
            kmax = max(sh.values())
            if kmax < 2:
                continue
            k = rng.randint(2, kmax)
            gone = [a for a, dd in sh.items() if dd >= k]
            if 0 < len(gone) <= budget:
                budget -= len(gone)
                doomed[(t["chain"], t["resi"], t["icode"])] = set(gone)
    keep = []
    removed = {}
    for it in items:
        if isinstance(it, dict):
            key = (it["chain"], it["resi"], it["icode"])
            if key in doomed:
                if it["name"] in doomed[key]:
                    removed.setdefault(key, []).append(it["name"])
                    continue
                if it["name"].startswith("H") and it["name"] not in ("H", "HA", "H2", "H3"):
                    continue  # side-chain hydrogens of a truncated residue would dangle
        keep.append(it)
    items[:] = keep
    pdbfmt.renumber(items)
    for t in truth:
        t["removed"] = removed.get((t["chain"], t["resi"], t["icode"]), [])


def backbone_damage(items, truth, rng, prob):
    """Delete backbone atoms of a few residues (never CA): the carbonyl O, C and O, or N - as in real files with
    poorly resolved termini / loop ends.  At most two residues, never two adjacent ones."""
    if prob <= 0:
        return
    blocks = _blocks(items)
    if len(blocks) != len(truth):
        return
    hit, dead = [], set()
    for k, t in enumerate(truth):
        if t["kind"] != "aa" or t.get("cyclic") or len(hit) >= 2 or (hit and k - hit[-1] < 2) or rng.random() >= prob:
            continue
        pattern = rng.choice([["O"], ["O"], ["C", "O"], ["N"], ["C"]])
        names = {a["name"] for a in blocks[k][1]}
        if not set(pattern) <= names:
            continue
        hit.append(k)
        t.setdefault("removed", [])
        t["removed"] = list(t["removed"]) + pattern
        t["bb_removed"] = pattern
        for a in blocks[k][1]:
            # hydrogens riding on a deleted atom go with it
            if a["name"] in pattern or (a["name"] in ("H", "H1", "H2", "H3") and "N" in pattern) or \
                    (a["name"] == "OXT" and "C" in pattern):
                dead.add(id(a))
    if dead:
        items[:] = [it for it in items if not (isinstance(it, dict) and id(it) in dead)]
        pdbfmt.renumber(items)


def frag(spec):
    rng = random.Random(spec["seed"])
    p = spec.get("p", {})
    nwin = p.get("nwin") or rng.choice([1, 1, 2])
    src = p.get("src") or rng.choice(fragments.SOURCES)
    entries, allw = [], []
    used = []
    minlen, maxlen = p.get("minlen", 3), p.get("maxlen", 10)
    if p.get("long_max"):
        # long stretches of the real proteins (deep hydrogen-bond networks, real packing, disulfides in context)
        maxlen = p["long_max"]
        longest = max(len(r) for r in fragments.runs(src))
        minlen = min(p.get("long_min", 30), longest)
    for c in range(nwin):
        win, wat, _ = fragments.window(rng, src, minlen, maxlen, waters=True,
                                       strip_h=rng.random() < 0.5, only_complete=p.get("only_complete", False))
        key = {r["src"] for r in win}
        if any(key & u for u in used):
            continue
        used.append(key)
        numbers = [r["src"][2] for r in win]
        entries.append({"id": CHAIN_IDS[c], "residues": win, "numbers": numbers,
                        "icodes": [r.get("icode", "") for r in win]})
        for w in wat:
            if not any(np.allclose(w["atoms"][0][1], w2["atoms"][0][1]) for w2 in allw):
                allw.append(w)
    if allw and rng.random() < p.get("water_prob", 0.6):
        entries.append({"id": "W", "start": 501, "residues": allw})
    items, truth = S.assemble(entries)
    damage(items, truth, rng, p.get("damage_prob", 0.0))
    return {"text": pdbfmt.to_text(items), "truth": truth, "items": items, "meta": {"src": src, "nwin": len(used)}}


def topostress(spec):
    """Chain-topology stressors (C02): many chains, blank / repeated / recycled chain ids, numbering resets and
    negative numbers, hidden chain ends (OXT inside a chain id group), single-residue chains, protein + nucleic
    mixes, hetero residues and waters after the polymer inside the same chain id."""
    rng = random.Random(spec["seed"])
    p = spec.get("p", {})
    scheme = p.get("scheme") or rng.choice(["distinct", "blank_ter", "repeated_oxt", "merged_oxt", "many", "single",
                                            "mixed_na", "het_tail", "adjacent_no_ter"])
    ff = spec["ff"]
    nch = p.get("nch") or {"many": rng.randint(20, 70), "single": rng.randint(2, 5)}.get(scheme, rng.randint(2, 5))
    chains, kinds = [], []
    for c in range(nch):
        if scheme == "mixed_na" and c % 2 == 1 and NA_FFS.get(ff):
            dna = NA_FFS[ff] == "both" and rng.random() < 0.5
            seq = [rng.choice("ACGT" if dna else "ACGU") for _ in range(rng.randint(1, 4))]
            chains.append(S.nucleic(seq, rng, dna=dna, first_phosphate=rng.random() < 0.5))
            kinds.append("na")
            continue
        n = 1 if scheme == "single" else rng.randint(1, 2) if scheme == "many" else rng.randint(2, 5)
        seq = [rng.choice(topo.AMINO) for _ in range(n)]
        # chain ends that are marked by TER / a new chain id do not need OXT in the input (it is rebuilt); the schemes
        # whose ends are visible only through OXT keep it
        oxt = True if scheme in ("merged_oxt", "repeated_oxt", "many") else rng.random() < 0.5
        chains.append(S.peptide(seq, rng, hydrogens=rng.choice(["none", "none", "all"]), cterm_oxt=oxt))
        kinds.append("aa")
    S.scatter(chains, rng, gap=4.0)
    entries = []
    if scheme in ("distinct", "mixed_na", "single", "het_tail"):
        for c, ch in enumerate(chains):
            entries.append({"id": CHAIN_IDS[c], "start": rng.choice([1, 1, 50, -5]), "residues": ch})
    elif scheme == "blank_ter":
        for c, ch in enumerate(chains):
            entries.append({"id": "", "start": 1, "residues": ch})
    elif scheme == "repeated_oxt":
        # id A, B, A, B ... : the second A group follows a TER; every group ends with OXT
        for c, ch in enumerate(chains):
            entries.append({"id": "AB"[c % 2], "start": 1 + 100 * c, "residues": ch})
    elif scheme == "merged_oxt":
        # one chain id, no TER between the pieces: chain ends are visible only through OXT
        for c, ch in enumerate(chains):
            entries.append({"id": "A", "start": 1 + 20 * c, "residues": ch, "no_ter": c < len(chains) - 1})
    elif scheme == "adjacent_no_ter":
        # different chain ids, no TER between the chains (TER-less files, and every mmCIF file), and the last residue
        # of a chain carries the same number as the first residue of the next one
        start = 1
        for c, ch in enumerate(chains):
            entries.append({"id": CHAIN_IDS[c], "start": start, "residues": ch, "no_ter": c < len(chains) - 1})
            start = start + len(ch) - 1
    elif scheme == "many":
        for c, ch in enumerate(chains):
            entries.append({"id": CHAIN_IDS[c % len(CHAIN_IDS)], "start": 1 + 10 * (c // len(CHAIN_IDS)), "residues": ch})
    if scheme == "het_tail":
        for e in entries[:2]:
            c0 = S.centroid(e["residues"])
            e["residues"] = e["residues"] + [{"resn": "SO4", "kind": "het", "atoms": [("S", c0 + np.array([14.0, 0, 0])),
                                                                                    ("O1", c0 + np.array([15.4, 0, 0]))]},
                                             S.water(c0 + np.array([0, 14.0, 0]), rng, spread=1.0)]
    items, truth = [], []
    serial = 1
    for e in entries:
        it, tr = S.assemble([e], ter=not e.get("no_ter"), end=False)
        items += it
        truth += tr
    items.append("END")
    pdbfmt.renumber(items)
    return {"text": pdbfmt.to_text(items), "truth": truth, "items": items, "meta": {"scheme": scheme, "nchains": nch}}


ALL_NAMES = list(topo.AMINO) + sorted(topo.VARIANTS)


def lattice_cases(seed, ffs=FFS, per_structure=4, opts_fn=None, names=None, p=None):
    """Every (input residue name x chain position N/I/C) cell under every force field: chains of three residues
    X-Y-Z where each name visits each position once (Latin-square rotation), packed `per_structure` chains per run."""
    names = list(names or ALL_NAMES)
    rng = random.Random(seed * 104729 + 7)
    out = []
    n = len(names)
    for fi, ff in enumerate(ffs):
        order = names[:]
        rng.shuffle(order)
        a, b = 1 + rng.randrange(n - 1), 1 + rng.randrange(n - 1)
        chains = [[order[i], order[(i + a) % n], order[(i + a + b) % n]] for i in range(n)]
        for k in range(0, len(chains), per_structure):
            spec = {"w": "synth", "seed": seed * 1000003 + fi * 1000 + k, "ff": ff,
                    "p": dict(p or {}, seqs=chains[k:k + per_structure], waters=[0], dense_prob=0.0), "lattice": True}
            spec["opts"] = opts_fn(rng, spec) if opts_fn else [f"--ff={ff}"]
            out.append(spec)
    return out


def apply_icodes(out, rng, prob=0.3):
    """Give some residues the number of their predecessor plus an insertion code (26, 26A, 26B ...), keeping items and
    ground truth in step."""
    items, truth = out["items"], out["truth"]
    # residue blocks in file order
    blocks, block, seg = [], None, 0
    for it in items:
        if not isinstance(it, dict):
            if isinstance(it, str) and it.startswith("TER"):
                seg += 1
            continue
        b = (it["chain"], it["resi"], it["icode"], seg)
        if b != block:
            block = b
            blocks.append([])
        blocks[-1].append(it)
    if len(blocks) != len(truth):
        return out
    prev = None
    for k, (atoms, t) in enumerate(zip(blocks, truth)):
        if prev is not None and t["kind"] == "aa" and prev[0]["kind"] == "aa" and prev[0]["chain"] == t["chain"] and \
                prev[2] == atoms[0].get("_seg", None) and rng.random() < prob:
            letters = "ABCDEFGHIJKLMNOPQRSTUVWXY"
            pc = prev[0]["icode"]
            nxt = "A" if pc == "" else letters[letters.index(pc) + 1] if pc in letters[:-1] else None
            if nxt is None:
                prev = (t, atoms, atoms[0].get("_seg", None))
                continue
            for a in atoms:
                a["resi"], a["icode"] = prev[0]["resi"], nxt
            t["resi"], t["icode"] = prev[0]["resi"], nxt
        prev = (t, atoms, atoms[0].get("_seg", None))
    out["text"] = pdbfmt.to_text(items)
    out["meta"]["icodes"] = sum(1 for t in truth if t["icode"])
    return out


def _blocks(items):
    blocks, block, seg = [], None, 0
    for it in items:
        if not isinstance(it, dict):
            if isinstance(it, str) and it.startswith("TER"):
                seg += 1
            continue
        b = (it["chain"], it["resi"], it["icode"], seg)
        if b != block:
            block = b
            blocks.append((seg, []))
        blocks[-1][1].append(it)
    return blocks


def apply_gap(out, rng):
    """Delete one or two consecutive interior residues of a chain (same chain id, numbering keeps the hole, no TER):
    the unresolved-loop pattern of real structures.  The neighbours stay complete interior residues."""
    items, truth = out["items"], out["truth"]
    blocks = _blocks(items)
    if len(blocks) != len(truth):
        return out

    def inner(k):
        return 0 < k < len(truth) - 1 and all(truth[j]["kind"] == "aa" and truth[j]["chain"] == truth[k]["chain"] and
                                              blocks[j][0] == blocks[k][0] and not truth[j].get("cyclic")
                                              for j in (k - 1, k, k + 1)) and truth[k]["pos"] == "I"
    cands = [k for k in range(len(truth)) if inner(k)]
    if not cands:
        return out
    k = rng.choice(cands)
    drop = [k]
    if rng.random() < 0.4 and inner(k + 1):
        drop.append(k + 1)
    dead = {id(a) for j in drop for a in blocks[j][1]}
    items[:] = [it for it in items if not (isinstance(it, dict) and id(it) in dead)]
    truth[drop[0] - 1]["gap_after"] = True
    truth[drop[-1] + 1]["gap_before"] = True
    for j in reversed(drop):
        del truth[j]
    pdbfmt.renumber(items)
    out["text"] = pdbfmt.to_text(items)
    out.setdefault("meta", {})["gap"] = len(drop)
    return out


def charmm_hydrogens(out, rng, prob):
    """Methylene hydrogens written the way CHARMM / GROMACS files name and order them: the pair (X2, X3) of the PDB v3
    names becomes (X1, X2) with X1 listed first - GLY HA1 HA2, SER HB1 HB2, ILE HG11 HG12 ...  The rule is fixed here
    (X3 is written as X1, X2 keeps its name) and does not consult the topology files of the tree under test."""
    import re
    items = out["items"]
    n = 0
    for seg, atoms in _blocks(items):
        if rng.random() >= prob:
            continue
        names = {a["name"] for a in atoms}
        for a3 in list(atoms):
            mo = re.fullmatch(r"(H[A-Z][0-9]?)3", a3["name"])
            if not mo:
                continue
            stem = mo.group(1)
            if stem + "2" not in names or stem + "1" in names:
                continue                      # methyl groups (1, 2, 3 all present) keep their names
            a2 = next(a for a in atoms if a["name"] == stem + "2")
            a3["canonical_name"] = a3["name"]
            a3["name"] = stem + "1"
            # X1 is listed directly in front of X2
            i3 = next(i for i, it in enumerate(items) if it is a3)
            items.pop(i3)
            i2 = next(i for i, it in enumerate(items) if it is a2)
            items.insert(i2, a3)
            n += 1
    if n:
        pdbfmt.renumber(items)
        out["text"] = pdbfmt.to_text(items)
        out.setdefault("meta", {})["charmm_hydrogen_pairs"] = n
    return out


def apply_aliases(out, rng, prob):
    """Write some atoms under the alternate names the topology files document (ILE CD for CD1, HN for H, 1HB for HB3,
    O5* for O5', OW for O ...), as older / NMR / simulation-package files do."""
    items, truth = out["items"], out["truth"]
    blocks = _blocks(items)
    if len(blocks) != len(truth):
        return out
    res, _, _ = topo.load()
    n = 0
    for (seg, atoms), t in zip(blocks, truth):
        base = t["base"] if t["kind"] == "aa" else topo.NUCLEIC_BASE.get(t["resn"]) if t["kind"] == "na" else \
            "WAT" if t["kind"] == "wat" else None
        if base not in res or rng.random() >= prob:
            continue
        d = res[base]
        inv = {}
        for alt, canon in d.alt.items():
            if alt not in d.atoms and len(alt) <= 4:
                inv.setdefault(canon, []).append(alt)
        if t["kind"] == "aa" and not t.get("cyclic"):
            # terminal oxygens / amine hydrogens under the CHARMM- and old-PDB-style names the terminus patches document
            _, patches, _ = topo.load()
            tp = ([patches["CTERM"]] if t["pos"] in ("C", "NC") else []) + ([patches["NTERM"]] if t["pos"] in ("N", "NC") else [])
            for pt in tp:
                for alt, canon in pt.alt.items():
                    if alt not in d.atoms and len(alt) <= 4 and alt not in inv.get(canon, []):
                        inv.setdefault(canon, []).append(alt)
        used = {a["name"] for a in atoms}
        for a in atoms:
            if a["name"] in inv and rng.random() < 0.6:
                alt = rng.choice(inv[a["name"]])
                # never two atoms of one residue under the same written name
                if alt in used or sum(1 for c, alts in inv.items() if alt in alts) != 1:
                    continue
                used.add(alt)
                a["canonical_name"] = a["name"]
                a["name"] = alt
                n += 1
    if n:
        out["text"] = pdbfmt.to_text(items)
        out.setdefault("meta", {})["aliases"] = n
    return out


def apply_carboxyl_asymmetry(out, rng, prob):
    """Make the two C-O bonds of some ASP / GLU side-chain carboxyl groups unequal (one oxygen moved 0.06-0.14 A
    outwards along its bond), as in atomic-resolution structures of protonated acids: the hydrogen-bond optimiser
    treats the longer bond as the hydroxyl."""
    items, truth = out["items"], out["truth"]
    blocks = _blocks(items)
    if len(blocks) != len(truth):
        return out
    n = 0
    for (seg, atoms), t in zip(blocks, truth):
        if t["kind"] != "aa" or t["base"] not in ("ASP", "GLU") or rng.random() >= prob:
            continue
        c, o1, o2 = ("CG", "OD1", "OD2") if t["base"] == "ASP" else ("CD", "OE1", "OE2")
        byname = {a["name"]: a for a in atoms}
        if not all(k in byname for k in (c, o1, o2)):
            continue
        o = byname[rng.choice([o1, o1, o2])]
        cc = np.array([byname[c]["x"], byname[c]["y"], byname[c]["z"]])
        oo = np.array([o["x"], o["y"], o["z"]])
        u = (oo - cc) / np.linalg.norm(oo - cc)
        d = rng.uniform(0.06, 0.14)
        hs = [a for a in atoms if a["name"].startswith("H") and
              np.linalg.norm(np.array([a["x"], a["y"], a["z"]]) - oo) < 1.2]
        for a in [o] + hs:                      # a hydrogen on that oxygen rides along
            a["x"], a["y"], a["z"] = (round(float(v), 3) for v in np.array([a["x"], a["y"], a["z"]]) + d * u)
        t["carboxyl_long_bond"] = o["name"]
        n += 1
    if n:
        out["text"] = pdbfmt.to_text(items)
        out.setdefault("meta", {})["carboxyl_asymmetric"] = n
    return out


def materialise(spec):
    out = _materialise(spec)
    p = spec.get("p") or {}
    if p.get("carboxyl_asym_prob") and "items" in out:
        apply_carboxyl_asymmetry(out, random.Random(spec["seed"] + 12), p["carboxyl_asym_prob"])
    if p.get("alias_prob") and "items" in out:
        apply_aliases(out, random.Random(spec["seed"] + 13), p["alias_prob"])
    if p.get("gap_prob") and "items" in out and random.Random(spec["seed"] + 15).random() < p["gap_prob"]:
        apply_gap(out, random.Random(spec["seed"] + 16))
    if p.get("bb_damage_prob") and "items" in out:
        backbone_damage(out["items"], out["truth"], random.Random(spec["seed"] + 14), p["bb_damage_prob"])
        out["text"] = pdbfmt.to_text(out["items"])
    if p.get("icode_prob") and random.Random(spec["seed"] + 17).random() < p["icode_prob"]:
        apply_icodes(out, random.Random(spec["seed"] + 18))
    if p.get("charmm_h_prob") and "items" in out:
        charmm_hydrogens(out, random.Random(spec["seed"] + 28), p["charmm_h_prob"])
    if p.get("water_repeat_prob") and "items" in out and random.Random(spec["seed"] + 26).random() < p["water_repeat_prob"]:
        # solvent whose numbering repeats with a short period (wrapped / concatenated water shells): non-adjacent
        # waters share chain + number, so distinct atoms carry identical labels
        r27 = random.Random(spec["seed"] + 27)
        period = r27.choice([2, 3, 4])
        chain = r27.choice(["W", "", "A"])
        base = r27.choice([201, 9996, 1])      # stays within the four-column residue number
        remap = {}
        for it in out["items"]:
            if isinstance(it, dict) and it["resn"] in ("HOH", "WAT"):
                k = (it["chain"], it["resi"], it["icode"])
                if k not in remap:
                    remap[k] = base + len(remap) % period
                it["chain"], it["resi"], it["icode"], it["resn"] = chain, remap[k], "", "HOH"
        if len(remap) > period:
            out["text"] = pdbfmt.to_text(out["items"])
            out.setdefault("meta", {})["water_labels_repeat"] = True
    if p.get("shuffle_atoms_prob") and "items" in out and random.Random(spec["seed"] + 24).random() < p["shuffle_atoms_prob"]:
        # the atoms of a residue in an unusual order (children before parents): legal, order carries no meaning
        r25 = random.Random(spec["seed"] + 25)
        items2, block, key = [], [], None
        def flush():
            if block:
                if r25.random() < 0.6:
                    (block.reverse() if r25.random() < 0.5 else r25.shuffle(block))
                items2.extend(block)
                del block[:]
        for it in out["items"]:
            if isinstance(it, dict):
                k = (it["chain"], it["resi"], it["icode"], it["resn"])
                if k != key:
                    flush()
                    key = k
                block.append(it)
            else:
                flush()
                key = None
                items2.append(it)
        flush()
        out["items"][:] = items2
        pdbfmt.renumber(out["items"])
        out["text"] = pdbfmt.to_text(out["items"])
        out.setdefault("meta", {})["atom_order_shuffled"] = True
    if p.get("offset_prob") and "items" in out and random.Random(spec["seed"] + 22).random() < p["offset_prob"]:
        # the whole structure far from the origin: coordinates that fill their eight columns (<= -100, >= 1000)
        r22 = random.Random(spec["seed"] + 23)
        off = [r22.choice([0.0, -150.0, -480.0, 1000.0, 2500.0, 0.0]) for _ in range(3)]
        if not any(off):
            off[r22.randrange(3)] = r22.choice([-150.0, 1000.0])
        for it in out["items"]:
            if isinstance(it, dict):
                it["x"], it["y"], it["z"] = round(it["x"] + off[0], 3), round(it["y"] + off[1], 3), round(it["z"] + off[2], 3)
        out["text"] = pdbfmt.to_text(out["items"])
        out.setdefault("meta", {})["offset"] = off
    if p.get("no_element_prob") and "items" in out and random.Random(spec["seed"] + 21).random() < p["no_element_prob"]:
        # files without the optional columns 67-80 (segment id, element, charge), as many programs write them
        for it in out["items"]:
            if isinstance(it, dict):
                it["elem"], it["seg"], it["chg"] = "", "", ""
        out["text"] = pdbfmt.to_text(out["items"])
        out.setdefault("meta", {})["no_element_columns"] = True
    r19 = random.Random(spec["seed"] + 19)
    if r19.random() < p.get("big_serial_prob", 0.15) and "items" in out:
        # serial numbers of a large structure: HETATM serials >= 10000 touch the record name (HETATM10000), the
        # counter passes 99999
        natoms = sum(1 for it in out["items"] if isinstance(it, dict))
        start = r19.choice([9990, max(1, 10000 - natoms // 2), 10000, 99999 - natoms // 2, 54321])
        pdbfmt.renumber(out["items"], start)
        out["text"] = pdbfmt.to_text(out["items"])
        out.setdefault("meta", {})["serial_start"] = start
    return out


def _materialise(spec):
    return {"synth": synth, "frag": frag, "topostress": topostress}[spec["w"]](spec)


def standard_cases(tier, seed, n_quick, n_thorough, opts_fn=None, ffs=FFS, frag_share=0.3, p=None):
    """A mixed synthetic/fragment workload cycling over force fields."""
    n = n_quick if tier == "quick" else n_thorough
    rng = random.Random(seed * 7919 + 13)
    out = []
    for i in range(n):
        ff = ffs[i % len(ffs)]
        w = "frag" if rng.random() < frag_share else "synth"
        spec = {"w": w, "seed": seed * 1000003 + i, "ff": ff, "p": dict(p or {})}
        spec["opts"] = opts_fn(rng, spec) if opts_fn else []
        out.append(spec)
    return out


def long_cases(seed, n, opts_fn=None, ffs=FFS, long_max=400, p=None):
    """Long stretches (30..long_max residues, whole chains when they fit) of the local real proteins, cycling over
    sources and force fields: deep hydrogen-bond networks, real packing and real disulfides."""
    rng = random.Random(seed * 6151 + 3)
    out = []
    for i in range(n):
        ff = ffs[(i // len(fragments.SOURCES)) % len(ffs)] if n > len(fragments.SOURCES) else ffs[i % len(ffs)]
        pp = dict(p or {})
        pp.update({"src": fragments.SOURCES[i % len(fragments.SOURCES)], "nwin": 1, "long_max": long_max})
        spec = {"w": "frag", "seed": seed * 2000003 + i, "ff": ff, "p": pp}
        spec["opts"] = opts_fn(rng, spec) if opts_fn else []
        out.append(spec)
    return out
