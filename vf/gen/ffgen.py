"""Random user force-field pairs (.DAT + .names) in the documented grammar, derived from a built-in pair by
mostly charge-conserving transformations so that runs still reach the end:
  A residue rows renamed + mapping section, B atom rows renamed + alias section (regex), C radii / pairwise charge
  perturbation, D optional 5th column, comments, blank lines, E cumulative override section onto a perturbed
  copy, F alias chains, G a deleted row (atom becomes unassigned), H $group mapping,
  I (residue, atom) pairs listed twice (appended override block; the later line supersedes the earlier one)."""
import re

from ..common import REPO

DAT = REPO / "pdb2pqr" / "dat"


def make(rng, base="AMBER"):
    dat_lines = (DAT / f"{base}.DAT").read_text(encoding="utf-8").splitlines()
    names = (DAT / f"{base}.names").read_text(encoding="utf-8")
    rows = []
    for ln in dat_lines:
        f = ln.split()
        if ln.startswith("#") or len(f) < 4:
            continue
        rows.append([f[0], f[1], float(f[2]), float(f[3]), f[4] if len(f) > 4 else None])
    residues = sorted({r[0] for r in rows})
    canonical_like = [r for r in residues if re.fullmatch(r"[A-Z]{3}", r) and r not in ("HIP", "HID", "HIE")]
    head, tail = [], []
    notes = []
    used = set(residues)

    def fresh(prefix):
        while True:
            n = prefix + "".join(rng.choice("ABCDEFGHJKLMNPQRSTUVWXYZ") for _ in range(2))
            if n not in used:
                used.add(n)
                return n

    # C: radii and pairwise charge perturbation inside residues
    for res in rng.sample(residues, min(len(residues), rng.randint(3, 12))):
        idx = [i for i, r in enumerate(rows) if r[0] == res]
        for i in idx:
            if rng.random() < 0.5:
                rows[i][3] = round(rows[i][3] + rng.choice([0.1, -0.05, 0.25, 0.0123]), 4)
        if len(idx) >= 2 and rng.random() < 0.7:
            i, j = rng.sample(idx, 2)
            d = rng.choice([0.01, 0.1234, -0.05, 0.3])
            rows[i][2] = round(rows[i][2] + d, 4)
            rows[j][2] = round(rows[j][2] - d, 4)
        notes.append(("perturb", res))
    # A: rename residue rows
    for res in rng.sample(canonical_like, min(len(canonical_like), rng.randint(0, 4))):
        new = fresh("U")
        for r in rows:
            if r[0] == res:
                r[0] = new
        names = re.sub(r"<useresname>%s</useresname>" % re.escape(res), f"<useresname>{new}</useresname>", names)
        head.append(f"  <residue>\n    <name>{res}</name>\n    <useresname>{new}</useresname>\n  </residue>")
        notes.append(("rename-res", res, new))
    # B: rename atom rows + regex alias section at the end
    for _ in range(rng.randint(0, 5)):
        r = rng.choice(rows)
        res, old = r[0], r[1]
        new = (old + rng.choice("XYZQ"))[:5]
        if any(x[0] == res and x[1] == new for x in rows):
            continue
        for x in rows:
            if x[0] == res and x[1] == old:
                x[1] = new
        pat = rng.choice([".*", "[NC]?...", ".+"])
        tail.append(f"  <residue>\n    <name>{pat}</name>\n    <atom>\n      <name>{old}</name>\n"
                    f"      <useatomname>{new}</useatomname>\n    </atom>\n  </residue>")
        notes.append(("rename-atom", res, old, new, pat))
    # F: alias chain (second alias refers to the first one's new name inside one section)
    if rng.random() < 0.5:
        r = rng.choice(rows)
        a1, a2 = fresh("a")[:4], fresh("b")[:4]
        tail.append(f"  <residue>\n    <name>.*</name>\n    <atom>\n      <name>{a1}</name>\n      <useatomname>{r[1]}"
                    f"</useatomname>\n    </atom>\n    <atom>\n      <name>{a2}</name>\n      <useatomname>{a1}"
                    f"</useatomname>\n    </atom>\n  </residue>")
        notes.append(("alias-chain", r[1], a1, a2))
    # E: cumulative override onto a perturbed copy
    if rng.random() < 0.6:
        res = rng.choice([r for r in ("ALA", "GLY", "SER", "VAL", "LEU", "WAT") if any(x[0] == r for x in rows)] or [rows[0][0]])
        copy = fresh("V")
        for x in [x for x in rows if x[0] == res]:
            if rng.random() < 0.6:
                rows.append([copy, x[1], x[2], round(x[3] + 0.5, 4), x[4]])
        tail.append(f"  <residue>\n    <name>{res}</name>\n    <useresname>{copy}</useresname>\n  </residue>")
        notes.append(("override", res, copy))
    # G: delete one row of a common residue
    if rng.random() < 0.25:
        cand = [i for i, x in enumerate(rows) if x[0] in ("ALA", "LEU", "SER", "GLY") and x[1].startswith("H")]
        if cand:
            i = rng.choice(cand)
            notes.append(("delete-row", rows[i][0], rows[i][1]))
            del rows[i]
    # H: $group mapping onto renamed rows
    if rng.random() < 0.4:
        tgt = [r for r in ("ASP", "GLU") if any(x[0] == r for x in rows)]
        if len(tgt) == 2:
            p = fresh("G")[:2]
            for x in rows:
                if x[0] in ("ASP", "GLU"):
                    x[0] = p + x[0][0]
            names = names.replace("<useresname>ASP</useresname>", f"<useresname>{p}A</useresname>")
            names = names.replace("<useresname>GLU</useresname>", f"<useresname>{p}G</useresname>")
            head.append(f"  <residue>\n    <name>([AG])(?:SP|LU)</name>\n    <useresname>{p}$group</useresname>\n  </residue>")
            notes.append(("group", p))
    # I: a block of local overrides appended to the table - (residue, atom) pairs listed a second time with other
    # values; the table is read top to bottom, so the later line is the file's value for that pair
    if rng.random() < 0.4:
        for res in rng.sample(residues, min(len(residues), rng.randint(1, 4))):
            idx = [i for i, r in enumerate(rows) if r[0] == res]
            if len(idx) < 2:
                continue
            i, j = rng.sample(idx, 2)
            d = rng.choice([0.05, -0.02, 0.2])
            rows.append([rows[i][0], rows[i][1], round(rows[i][2] + d, 4), round(rows[i][3] + 0.3, 4), rows[i][4]])
            rows.append([rows[j][0], rows[j][1], round(rows[j][2] - d, 4), rows[j][3], rows[j][4]])
            notes.append(("repeated-rows", res, rows[i][1], rows[j][1]))
    out = ["# user force field generated by the verification harness", ""]
    for k, r in enumerate(rows):
        if k % 37 == 0 and rng.random() < 0.5:
            out.append("# a comment line")
        if k % 53 == 0 and rng.random() < 0.5:
            out.append("")
        sep = rng.choice(["\t", "  ", " "])
        line = sep.join([r[0], r[1], "%.4f" % r[2], "%.4f" % r[3]])
        if r[4] and rng.random() < 0.7:
            line += sep + r[4]
        out.append(line)
    dat_text = "\n".join(out) + "\n"
    # splice sections into the names file
    body_start = names.index("<residue>")
    body_end = names.rindex("</ffname>") if "</ffname>" in names else names.rindex("</")
    names_text = names[:body_start] + "\n".join(head) + ("\n  " if head else "") + names[body_start:body_end] + \
        "\n".join(tail) + "\n" + names[body_end:]
    return dat_text, names_text, notes


def make_names_only(rng, base="PARSE"):
    """A user .names file for a *bundled* parameter file (--ff=X --usernames=FILE): the bundled names plus extra atom
    rules that re-point canonical atoms at other rows of the same residue with the same charge but a different
    radius (so totals stay integral while the written radii change)."""
    dat_lines = (DAT / f"{base}.DAT").read_text(encoding="utf-8").splitlines()
    names = (DAT / f"{base}.names").read_text(encoding="utf-8")
    rows = {}
    for ln in dat_lines:
        f = ln.split()
        if ln.startswith("#") or len(f) < 4:
            continue
        rows.setdefault(f[0], []).append((f[1], float(f[2]), float(f[3])))
    cands = []
    for res, atoms in rows.items():
        if not re.fullmatch(r"[A-Z]{3}", res):
            continue
        for a, qa, ra in atoms:
            for b, qb, rb in atoms:
                if a != b and qa == qb and ra != rb:
                    cands.append((res, a, b))
    rng.shuffle(cands)
    tail, notes = [], []
    for res, a, b in cands[: rng.randint(1, 4)]:
        tail.append(f"  <residue>\n    <name>{res}</name>\n    <atom>\n      <name>{a}</name>\n      <useatomname>{b}"
                    f"</useatomname>\n    </atom>\n  </residue>")
        notes.append(("repoint", res, a, b))
    body_end = names.rindex("</")
    return names[:body_end] + "\n".join(tail) + "\n" + names[body_end:], notes


def make_names_variant(rng, base="AMBER"):
    """A user .names file for the bundled parameter file `base` that *lacks* parts of the bundled naming map (whole
    <residue> sections or single <atom> rules removed) and may add re-pointing rules: the canonical atoms that lost
    their rule have no entry under this map."""
    names, notes = make_names_only(rng, base) if rng.random() < 0.5 else \
        ((DAT / f"{base}.names").read_text(encoding="utf-8"), [])
    notes = list(notes)
    sections = list(re.finditer(r"[ \t]*<residue>.*?</residue>[ \t]*\n?", names, re.S))
    # only sections of the bundled part (added rules sit at the end and stay)
    nb = (DAT / f"{base}.names").read_text(encoding="utf-8").count("<residue>")
    sections = sections[:nb]
    drop = rng.sample(sections, min(len(sections), rng.randint(1, 2)))
    for mt in sorted(drop, key=lambda x: -x.start()):
        sec = mt.group(0)
        atoms = list(re.finditer(r"[ \t]*<atom>.*?</atom>[ \t]*\n?", sec, re.S))
        rname = re.search(r"<name>(.*?)</name>", sec).group(1)
        if atoms and rng.random() < 0.5:
            a = rng.choice(atoms)
            new = sec[:a.start()] + sec[a.end():]
            notes.append(("drop-atom-rule", rname, re.search(r"<name>(.*?)</name>", a.group(0)).group(1)))
        else:
            new = ""
            notes.append(("drop-section", rname))
        names = names[:mt.start()] + new + names[mt.end():]
    if rng.random() < 0.6:
        # a section written for another force field of the family: its residue name matches nothing in this parameter
        # file (legal - the bundled PARSE.names carries such sections), it carries atom rules, and it sits directly in
        # front of some other section. It must change nothing.
        sections = list(re.finditer(r"[ \t]*<residue>.*?</residue>[ \t]*\n?", names, re.S))
        if sections:
            at = rng.choice(sections).start()
            ghost = rng.choice(["ZZQ", "XQ.*", "QQ[0-9]", "ASHX", "GLHX"])
            pairs = rng.sample([("HD1", "HD2"), ("HE1", "HE2"), ("H", "HN"), ("CA", "CB"), ("O", "OXT"), ("N", "C"),
                                ("HB2", "HB3"), ("CG", "CD"), ("HG", "HA"), ("OP1", "OP2"), ("H2", "H3")], rng.randint(1, 4))
            body = "".join(f"    <atom>\n      <name>{a}</name>\n      <useatomname>{b}</useatomname>\n    </atom>\n"
                           for a, b in pairs)
            names = names[:at] + f"  <residue>\n    <name>{ghost}</name>\n{body}  </residue>\n" + names[at:]
            notes.append(("ghost-section", ghost, tuple(pairs)))
    return names, notes
