"""Windows cut from the local PDB files: every residue becomes N-/C-terminal in some fragment."""
from functools import lru_cache

import numpy as np

from ..common import REPO
from ..ref import topology as topo
from . import pdbfmt

DATA = REPO / "tests" / "data"
SOURCES = ["1AFS", "1AJJ", "1BX8", "1K1I", "1QBS", "1US0", "1A1P"]


@lru_cache(maxsize=None)
def load(name):
    """-> list of residues [{chain,resi,icode,resn,kind,atoms:[atom dicts]}] for the first model (first alt-loc)."""
    text = (DATA / f"{name}.pdb").read_text()
    atoms = pdbfmt.first_altloc(pdbfmt.read_first_model(text))
    res = []
    for a in atoms:
        key = (a["chain"], a["resi"], a["icode"], a["resn"])
        if not res or res[-1]["key"] != key:
            kind = "aa" if topo.base_of(a["resn"]) else "wat" if a["resn"] in ("HOH", "WAT") else \
                "na" if a["resn"] in topo.NUCLEIC_BASE else "het"
            res.append({"key": key, "chain": a["chain"], "resi": a["resi"], "icode": a["icode"], "resn": a["resn"],
                        "kind": kind, "atoms": []})
        res[-1]["atoms"].append(a)
    return res


def complete(r):
    """Amino residue with every template heavy atom present (no repair needed)."""
    if r["kind"] != "aa":
        return False
    have = {a["name"] for a in r["atoms"]}
    res, _, _ = topo.load()
    return all(h in have for h in res[topo.base_of(r["resn"])].heavy())


def runs(name):
    """Maximal runs of consecutive amino-acid residues within a chain."""
    out, cur = [], []
    for r in load(name):
        if r["kind"] == "aa" and (not cur or (cur[-1]["chain"] == r["chain"])):
            cur.append(r)
        else:
            if cur:
                out.append(cur)
            cur = [r] if r["kind"] == "aa" else []
    if cur:
        out.append(cur)
    return out


def window(rng, name=None, minlen=3, maxlen=12, waters=True, strip_h=False, only_complete=False):
    """-> list of residue dicts in the generator's format ({resn, kind, atoms:[(name, xyz)]}) + source info."""
    name = name or rng.choice(SOURCES)
    rr = [r for r in runs(name) if len(r) >= minlen]
    run = rng.choice(rr)
    for _ in range(50):
        n = rng.randint(minlen, min(maxlen, len(run)))
        s = rng.randrange(0, len(run) - n + 1)
        win = run[s:s + n]
        if not only_complete or all(complete(r) for r in win):
            break
    out = []
    for r in win:
        atoms = [(a["name"], np.array([a["x"], a["y"], a["z"]])) for a in r["atoms"]
                 if not (strip_h and a["name"].lstrip("0123456789").startswith("H"))]
        # a cut C-terminus has no OXT; a cut N-terminus may carry the amide H of an NMR model
        out.append({"resn": r["resn"], "kind": "aa", "atoms": atoms, "src": (name, r["chain"], r["resi"]),
                    "icode": r["icode"]})
    wat = []
    if waters:
        pts = np.array([x for r in out for _, x in r["atoms"]])
        for r in load(name):
            if r["kind"] == "wat":
                o = np.array([r["atoms"][0]["x"], r["atoms"][0]["y"], r["atoms"][0]["z"]])
                if np.min(np.linalg.norm(pts - o, axis=1)) < 4.0:
                    wat.append({"resn": r["resn"], "kind": "wat",
                                "atoms": [(a["name"], np.array([a["x"], a["y"], a["z"]])) for a in r["atoms"]]})
    return out, wat, name
