"""Synthetic structure builder: peptides (NeRF backbone + AA.xml templates placed by our own Kabsch),
nucleic strands (NA.xml templates on a helical screw), waters, rigid placement of chains, assembly to PDB items.

Independent of pdb2pqr code (reads only the XML data files through vf.ref.topology).
"""
import math

import numpy as np

from ..ref import topology as topo
from ..ref.rigid import kabsch, random_rotation
from . import pdbfmt

CONF = {"beta": (-120.0, 130.0), "alpha": (-60.0, -45.0), "ppii": (-75.0, 145.0), "ext": (-150.0, 155.0)}


def nerf(a, b, c, bond, angle, tors):
    angle, tors = math.radians(angle), math.radians(tors)
    bc = c - b
    bc = bc / np.linalg.norm(bc)
    n = np.cross(b - a, bc)
    n = n / np.linalg.norm(n)
    m = [bc, np.cross(n, bc), n]
    d2 = [-bond * math.cos(angle), bond * math.sin(angle) * math.cos(tors), bond * math.sin(angle) * math.sin(tors)]
    return c + d2[0] * m[0] + d2[1] * m[1] + d2[2] * m[2]


def _tpl(base):
    return {n: np.array(x) for n, x in topo.template_coords(base).items()}


def _angle(a, b, c):
    v1, v2 = a - b, c - b
    return math.degrees(math.acos(np.dot(v1, v2) / np.linalg.norm(v1) / np.linalg.norm(v2)))


def backbone(bases, phipsi):
    """N, CA, C per residue using each template's own N-CA, CA-C lengths and N-CA-C angle (so the fit is exact)."""
    out = []
    for i, base in enumerate(bases):
        t = _tpl(base)
        dNCA = np.linalg.norm(t["N"] - t["CA"])
        dCAC = np.linalg.norm(t["C"] - t["CA"])
        ang = _angle(t["N"], t["CA"], t["C"])
        if i == 0:
            N = np.zeros(3)
            CA = np.array([dNCA, 0.0, 0.0])
            C = CA + dCAC * np.array([math.cos(math.radians(180 - ang)), math.sin(math.radians(180 - ang)), 0.0])
        else:
            pN, pCA, pC = out[-1]
            N = nerf(pN, pCA, pC, 1.329, 116.2, phipsi[i - 1][1])
            CA = nerf(pCA, pC, N, dNCA, 121.7, 180.0)
            C = nerf(pC, N, CA, dCAC, ang, phipsi[i][0])
        out.append((N, CA, C))
    return out


def peptide(seq, rng, conf=None, hydrogens="none", cterm_oxt=True, nterm_amide=False, phipsi=None):
    """seq: list of input residue names (may be variants like ASH, HID).  Returns list of residue dicts.

    hydrogens: none | all | side (template side-chain + HA hydrogens) | some (random subset)
    """
    bases = [topo.base_of(n) for n in seq]
    if phipsi is not None:
        pass          # explicit backbone torsions (one (phi, psi) pair per residue)
    elif conf is None:
        conf = rng.choice(["beta", "ppii", "ext", "mixed"])
    if phipsi is not None:
        pass
    elif conf == "mixed":
        phipsi = []
        for _ in seq:
            p = CONF[rng.choice(["beta", "ppii", "ext", "beta"])]
            phipsi.append((p[0] + rng.uniform(-15, 15), p[1] + rng.uniform(-15, 15)))
    else:
        p = CONF[conf]
        phipsi = [(p[0] + rng.uniform(-8, 8), p[1] + rng.uniform(-8, 8)) for _ in seq]
    bb = backbone(bases, phipsi)
    out = []
    for i, (resn, base, (N, CA, C)) in enumerate(zip(seq, bases, bb)):
        t = _tpl(base)
        R, tr = kabsch(np.array([t["N"], t["CA"], t["C"]]), np.array([N, CA, C]))
        atoms = []
        for an, xyz in t.items():
            if an.startswith("H"):
                if hydrogens == "none":
                    continue
                if hydrogens == "side" and an == "H":
                    continue
                if hydrogens == "some" and rng.random() < 0.5:
                    continue
                if an == "H" and ((i == 0 and not nterm_amide) or base == "PRO"):
                    continue          # nterm_amide: the first residue keeps its amide H (a re-fed protonated file)
                # protonation variants: drop hydrogens the named state does not have
                if resn in topo.VARIANTS:
                    _, patches, _ = topo.load()
                    if any(an in patches[p].remove for p in topo.VARIANTS[resn][1]):
                        continue
                if base == "HIS" and resn == "HIS" and an == "HE2":
                    continue
            atoms.append([an, R @ xyz + tr])
        if i + 1 < len(seq):
            Nn = bb[i + 1][0]
            v1 = (CA - C) / np.linalg.norm(CA - C)
            v2 = (Nn - C) / np.linalg.norm(Nn - C)
            o = -(v1 + v2)
            o /= np.linalg.norm(o)
            for a in atoms:
                if a[0] == "O":
                    a[1] = C + 1.231 * o
        elif cterm_oxt:
            O = dict((a[0], a[1]) for a in atoms)["O"]
            v1 = (CA - C) / np.linalg.norm(CA - C)
            v2 = (O - C) / np.linalg.norm(O - C)
            o = -(v1 + v2)
            o /= np.linalg.norm(o)
            atoms.append(["OXT", C + 1.25 * o])
        out.append({"resn": resn, "kind": "aa", "atoms": [(a[0], np.array(a[1])) for a in atoms]})
    return out


def nucleic(seq, rng, dna=False, first_phosphate=True, hydrogens="none"):
    """seq: base letters from A,C,G,U,T.  Template nucleotides on a helical screw (crude inter-residue geometry)."""
    out = []
    # RNA strands are named either RA/RC/RG/RU or, as in wwPDB v3 files, A/C/G/U (one style per strand)
    modern = (not dna) and rng.random() < 0.5
    for i, letter in enumerate(seq):
        if letter == "T":
            base, resn = "DT", "DT"
        else:
            base = "R" + letter
            resn = ("D" + letter) if dna else (letter if modern else base)
        t = _tpl(base)
        ang = math.radians(33.0 * i)
        Rz = np.array([[math.cos(ang), -math.sin(ang), 0], [math.sin(ang), math.cos(ang), 0], [0, 0, 1]])
        shift = np.array([0.0, 0.0, 6.5 * i])
        atoms = []
        for an, xyz in t.items():
            if an.startswith("H") and hydrogens == "none":
                continue
            if dna and resn != "DT" and an in ("O2'", "HO2'", "HO'2", "H2'"):
                if an == "O2'" or an.startswith("HO"):
                    continue
            if i == 0 and not first_phosphate and an in ("P", "O1P", "O2P", "OP1", "OP2"):
                continue
            atoms.append((an, Rz @ xyz + shift))
        out.append({"resn": resn, "kind": "na", "atoms": atoms})
    return out


def water(center, rng, spread=8.0, with_h=0, resn="HOH"):
    o = np.array(center) + np.array([rng.uniform(-spread, spread) for _ in range(3)])
    atoms = [("O", o)]
    if with_h:
        t = _tpl("WAT")
        R = random_rotation(rng)
        for hn in ("H1", "H2")[:with_h]:
            atoms.append((hn, o + R @ (t[hn] - t["O"])))
    return {"resn": resn, "kind": "wat", "atoms": atoms}


def transform(residues, R, t):
    for r in residues:
        r["atoms"] = [(n, R @ x + t) for n, x in r["atoms"]]
    return residues


def centroid(residues):
    pts = [x for r in residues for _, x in r["atoms"]]
    return np.mean(pts, axis=0)


def radius(residues):
    c = centroid(residues)
    return max(np.linalg.norm(x - c) for r in residues for _, x in r["atoms"])


def scatter(chains, rng, gap=6.0, rotate=True):
    """Place chains (lists of residues) with random orientations so bounding spheres are `gap` apart."""
    placed = []
    for res in chains:
        R = random_rotation(rng) if rotate else np.eye(3)
        transform(res, R, np.zeros(3))
        c, rad = centroid(res), radius(res)
        for _ in range(200):
            d = np.array([rng.gauss(0, 1) for _ in range(3)])
            d /= np.linalg.norm(d)
            dist = rng.uniform(0, 12.0 * (len(placed) + 1))
            target = d * dist
            if all(np.linalg.norm(target - pc) > rad + prad + gap for pc, prad in placed):
                break
        else:
            target = np.array([60.0 * (len(placed) + 1), 0.0, 0.0])
        transform(res, np.eye(3), target - c)
        placed.append((target, rad))
    return chains


def assemble(chains, ter=True, end=True, start_serial=1, het_as_hetatm=True):
    """chains: list of dicts {id, start, residues, [icodes], [numbers]} -> (items, truth).

    truth: list of per-residue dicts in file order (chain, resi, icode, resn, base, kind, pos, index) where
    pos in {N, I, C, NC} is the position in its *polymer* run within the chain entry.
    """
    items, truth = [], []
    for ch in chains:
        res = ch["residues"]
        numbers = ch.get("numbers") or [ch.get("start", 1) + k for k in range(len(res))]
        icodes = ch.get("icodes") or [""] * len(res)
        poly = [k for k, r in enumerate(res) if r["kind"] in ("aa", "na")]
        for k, r in enumerate(res):
            rec = "HETATM" if (r["kind"] in ("wat", "het") and het_as_hetatm) else "ATOM"
            rec = r.get("rec", rec)
            for an, xyz in r["atoms"]:
                items.append(pdbfmt.atom(an, r["resn"], ch["id"], numbers[k], xyz, rec=rec, icode=icodes[k]))
            pos = "-"
            if r["kind"] in ("aa", "na"):
                first, last = (k == poly[0]), (k == poly[-1])
                pos = "NC" if first and last else "N" if first else "C" if last else "I"
            truth.append({"chain": ch["id"], "resi": numbers[k], "icode": icodes[k], "resn": r["resn"],
                          "base": topo.base_of(r["resn"]) if r["kind"] == "aa" else r["resn"], "kind": r["kind"],
                          "pos": pos, "cyclic": bool(ch.get("cyclic"))})
        if ter:
            items.append("TER")
    if end:
        items.append("END")
    pdbfmt.renumber(items, start_serial)
    return items, truth


def random_sequence(rng, n, pool=None):
    pool = pool or topo.AMINO
    return [rng.choice(pool) for _ in range(n)]
