"""PDB atom-record model used by all generators, with an independent fixed-column writer and reader.

A structure is a list of items; an item is either an atom dict
  {rec, serial, name, alt, resn, chain, resi, icode, x, y, z, occ, b, seg, elem, chg}
or a raw text line (str) such as "TER", "END", "MODEL        1", "REMARK ...".
"""
import copy


def atom(name, resn, chain, resi, xyz, rec="ATOM", icode="", alt="", serial=0, occ=1.0, b=0.0, elem=None, chg="",
         seg=""):
    return {"rec": rec, "serial": serial, "name": name, "alt": alt, "resn": resn, "chain": chain, "resi": int(resi),
            "icode": icode, "x": float(xyz[0]), "y": float(xyz[1]), "z": float(xyz[2]), "occ": occ, "b": b,
            "seg": seg, "elem": elem if elem is not None else guess_element(name), "chg": chg}


def guess_element(name):
    n = name.lstrip("0123456789'\"")
    return n[:1] if n else "X"


def fmt_name(name):
    if len(name) >= 4:
        return name[:4]
    return " " + name.ljust(3)


def fmt_atom(a, width=80):
    """wwPDB fixed columns (serial wraps modulo 100000 like most writers; resSeq must fit 4 columns)."""
    line = "%-6s%5d %4s%1s%3s %1s%4d%1s   %8.3f%8.3f%8.3f%6.2f%6.2f      %-4s%2s%2s" % (
        a["rec"], a["serial"] % 100000, fmt_name(a["name"]), a["alt"] or " ", a["resn"][:3].rjust(3),
        a["chain"] or " ", a["resi"], a["icode"] or " ", a["x"], a["y"], a["z"], a["occ"], a["b"],
        a["seg"], a["elem"].rjust(2), a["chg"].ljust(2))
    return line[:width]


def renumber(items, start=1):
    s = start
    for it in items:
        if isinstance(it, dict):
            it["serial"] = s
            s += 1
    return items


def to_text(items, eol="\n", width=80, final_eol=True):
    out = []
    for it in items:
        out.append(fmt_atom(it, width) if isinstance(it, dict) else it)
    text = eol.join(out)
    return text + (eol if final_eol else "")


def atoms_of(items):
    return [it for it in items if isinstance(it, dict)]


def clone(items):
    return copy.deepcopy(items)


# ----------------------------------------------------------------------------------------------
# Independent fixed-column reader (the C07 reference model).  Columns only, nothing else.

def parse_atom_line(line):
    rec = line[0:6].strip()
    return {"rec": rec, "serial": int(line[6:11]), "name": line[12:16].strip(), "alt": line[16:17].strip(),
            "resn": line[17:20].strip(), "chain": line[21:22].strip(), "resi": int(line[22:26]),
            "icode": line[26:27].strip(), "x": float(line[30:38]), "y": float(line[38:46]), "z": float(line[46:54])}


def read_first_model(text):
    """All ATOM/HETATM records of the first model, by columns; later models ignored.

    Model handling: records before the first MODEL line and records inside the first MODEL/ENDMDL block both
    belong to 'the first model' only if no second MODEL line has been seen.
    """
    out = []
    models = 0
    seg = 0
    for raw in text.splitlines():
        line = raw.strip("\r\n")
        key = line.strip()[0:6].strip() if line.strip() else ""
        if key == "MODEL":
            models += 1
            if models > 1:
                break
            continue
        if key == "TER":
            seg += 1
        if key in ("ATOM", "HETATM"):
            s = line.strip()
            try:
                out.append(dict(parse_atom_line(s), seg=seg))
            except (ValueError, IndexError):
                out.append({"unparsed": s})
    return out


def first_altloc(atoms):
    """One atom per (chain, resi, icode, name): first listed wins.  Identity is scoped to the contiguous block of
    records sharing (chain, resi, icode) - two chains with blank ids and equal numbering are different residues."""
    seen = set()
    out = []
    block = None
    for a in atoms:
        if "unparsed" in a:
            out.append(a)
            continue
        b = (a["chain"], a["resi"], a["icode"], a.get("seg"))
        if b != block:
            block = b
            seen = set()
        if a["name"] in seen:
            continue
        seen.add(a["name"])
        out.append(a)
    return out
