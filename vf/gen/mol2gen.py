"""MOL2 workloads: parser/writer for the local files, mutators (rename, permute, rigid motion) and a random
molecule builder over supported Sybyl types with valence-legal bond types."""
import random
from pathlib import Path

import numpy as np

from ..common import REPO
from ..ref.rigid import random_rotation

LOCAL = sorted(list((REPO / "tests" / "data").glob("*.mol2")) + list((REPO / "examples" / "ligands").glob("*.mol2")))


def parse(text):
    atoms, bonds, sec = [], [], None
    for line in text.splitlines():
        if line.startswith("@<TRIPOS>"):
            sec = line.strip()[9:]
            continue
        w = line.split()
        if sec == "ATOM" and len(w) >= 8:
            atoms.append({"name": w[1], "xyz": [float(w[2]), float(w[3]), float(w[4])], "type": w[5],
                          "resi": int(w[6]), "resn": w[7], "q": float(w[8]) if len(w) > 8 else 0.0})
        elif sec == "BOND" and len(w) >= 4:
            bonds.append((int(w[1]) - 1, int(w[2]) - 1, w[3]))
    return {"atoms": atoms, "bonds": bonds}


def write(mol, name="LIG"):
    a, b = mol["atoms"], mol["bonds"]
    out = ["@<TRIPOS>MOLECULE", name, f"{len(a):5d}{len(b):5d}    1", "SMALL", "USER_CHARGES", "", "",
           "@<TRIPOS>ATOM"]
    for i, at in enumerate(a):
        out.append(f"{i + 1:6d}  {at['name']:<8s}{at['xyz'][0]:10.3f}{at['xyz'][1]:10.3f}{at['xyz'][2]:10.3f}   "
                   f"{at['type']:<7s}{at['resi']:4d} {at['resn']:<8s}{at['q']:8.3f}")
    out.append("@<TRIPOS>BOND")
    for k, (i, j, t) in enumerate(b):
        out.append(f"{k + 1:5d}{i + 1:5d}{j + 1:5d} {t}")
    out += ["@<TRIPOS>SUBSTRUCTURE", f"  1  {a[0]['resn']}    1"]
    return "\n".join(out) + "\n"


def rename(mol, rng, style="random"):
    """Bijective renaming; returns (new molecule, map old->new)."""
    new = {"atoms": [dict(a) for a in mol["atoms"]], "bonds": list(mol["bonds"])}
    used, mp = set(), {}
    for i, a in enumerate(new["atoms"]):
        while True:
            if style == "reverse":
                n = f"Q{len(new['atoms']) - i}"
            elif style == "element":
                n = a["type"].split(".")[0][:1] + str(rng.randint(1, 999))
            else:
                n = "".join(rng.choice("ABCDEFGHJKLMNPQRSTUVWXYZ") for _ in range(rng.randint(1, 2))) + str(rng.randint(0, 99))
            if n not in used:
                break
        used.add(n)
        mp[a["name"]] = n
        a["name"] = n
    return new, mp


def permute(mol, rng):
    """Random atom order (bond indices remapped), random bond order and endpoint order.  Returns (mol, perm) with
    new_atoms[k] = old_atoms[perm[k]]."""
    n = len(mol["atoms"])
    perm = list(range(n))
    rng.shuffle(perm)
    inv = {old: new for new, old in enumerate(perm)}
    atoms = [dict(mol["atoms"][old]) for old in perm]
    bonds = []
    for i, j, t in mol["bonds"]:
        a, b = inv[i], inv[j]
        if rng.random() < 0.5:
            a, b = b, a
        bonds.append((a, b, t))
    rng.shuffle(bonds)
    return {"atoms": atoms, "bonds": bonds}, perm


def move(mol, rng):
    R = random_rotation(rng)
    t = np.array([rng.uniform(-50, 50) for _ in range(3)])
    new = {"atoms": [dict(a) for a in mol["atoms"]], "bonds": list(mol["bonds"])}
    for a in new["atoms"]:
        a["xyz"] = list(R @ np.array(a["xyz"]) + t)
    return new


# ---------------------------------------------------------------------------------------------------------
class _Builder:
    def __init__(self, rng, resn="LIG"):
        self.rng = rng
        self.atoms = []
        self.bonds = []
        self.free = []   # (atom index) with an open single valence, repeated per open valence
        self.resn = resn
        self.rings = 0

    def add(self, typ, near=None):
        base = np.array(self.atoms[near]["xyz"]) if near is not None else np.zeros(3)
        d = np.array([self.rng.gauss(0, 1) for _ in range(3)])
        d = d / np.linalg.norm(d) * 1.45
        self.atoms.append({"name": f"{typ.split('.')[0][:2].upper()}{len(self.atoms) + 1}", "xyz": list(base + d),
                           "type": typ, "resi": 1, "resn": self.resn, "q": 0.0})
        return len(self.atoms) - 1

    def bond(self, i, j, t="1"):
        self.bonds.append((i, j, t))

    def open(self, i, n):
        self.free += [i] * n

    def take(self):
        k = self.rng.randrange(len(self.free))
        return self.free.pop(k)

    def attach(self, kind):
        """Attach a group to a random open valence (or start the molecule)."""
        if (kind in ("phenyl", "cyclohexyl") and self.rings >= 2) or kind not in GROUPS + ["C.3"]:
            kind = "C.3"        # decided before a valence is consumed, so no atom is left under-bonded
        if kind in ("F", "Cl", "Br", "I") and not self.free:
            kind = "C.3"
        parent = self.take() if self.free else None

        def link(i):
            if parent is not None:
                self.bond(parent, i, "1")

        if kind in ("C.3", "N.3", "N.4", "O.3", "S.3"):
            i = self.add(kind, parent)
            link(i)
            val = {"C.3": 4, "N.3": 3, "N.4": 4, "O.3": 2, "S.3": 2}[kind]
            self.open(i, val - (1 if parent is not None else 0))
        elif kind in ("F", "Cl", "Br", "I"):
            i = self.add(kind, parent)
            link(i)
        elif kind == "carboxylate":
            c = self.add("C.2", parent)
            link(c)
            for _ in range(2):
                o = self.add("O.co2", c)
                self.bond(c, o, "2")
            if parent is None:
                self.open(c, 1)
        elif kind == "carbonyl":
            c = self.add("C.2", parent)
            link(c)
            o = self.add("O.2", c)
            self.bond(c, o, "2")
            self.open(c, 2 - (1 if parent is not None else 0))
        elif kind == "nitrile":
            c = self.add("C.1", parent)
            link(c)
            n = self.add("N.1", c)
            self.bond(c, n, "3")
            if parent is None:
                self.open(c, 1)
        elif kind == "amide":
            c = self.add("C.2", parent)
            link(c)
            o = self.add("O.2", c)
            self.bond(c, o, "2")
            n = self.add("N.am", c)
            self.bond(c, n, "1")
            self.open(n, 2)
            if parent is None:
                self.open(c, 1)
        elif kind == "phenyl":
            self.rings += 1
            ring = [self.add("C.ar", parent) for _ in range(6)]
            for k in range(6):
                self.bond(ring[k], ring[(k + 1) % 6], "ar")
            link(ring[0])
            for k in range(6):
                if not (k == 0 and parent is not None):
                    self.open(ring[k], 1)
        elif kind == "cyclohexyl":
            self.rings += 1
            ring = [self.add("C.3", parent) for _ in range(6)]
            for k in range(6):
                self.bond(ring[k], ring[(k + 1) % 6], "1")
            link(ring[0])
            for k in range(6):
                self.open(ring[k], 2 - (1 if (k == 0 and parent is not None) else 0))
        elif kind == "phosphate":
            p = self.add("P.3", parent)
            o2 = self.add("O.2", p)
            self.bond(p, o2, "2")
            for _ in range(2):
                o = self.add("O.3", p)
                self.bond(p, o, "1")
            if parent is not None and self.atoms[parent]["type"] != "O.3":
                ob = self.add("O.3", parent)
                self.bond(parent, ob, "1")
                self.bond(ob, p, "1")
            elif parent is not None:
                self.bond(parent, p, "1")
            else:
                ob = self.add("O.3", p)
                self.bond(p, ob, "1")
                self.open(ob, 1)
        else:
            raise ValueError(kind)
        return None

    def finish(self):
        for i in self.free:
            h = self.add("H", i)
            self.bond(i, h, "1")
        self.free = []
        # unique names of <= 4 characters
        seen = {}
        for k, a in enumerate(self.atoms):
            el = a["type"].split(".")[0][:2].upper() if a["type"] in ("Cl", "Br") else a["type"][0]
            seen[el] = seen.get(el, 0) + 1
            a["name"] = f"{el}{seen[el]}"[:4]
        return {"atoms": self.atoms, "bonds": self.bonds}


GROUPS = ["C.3", "C.3", "C.3", "N.3", "N.4", "O.3", "S.3", "F", "Cl", "Br", "I", "carboxylate", "carbonyl", "nitrile",
          "amide", "phenyl", "cyclohexyl", "phosphate"]


def random_molecule(rng, nmin=2, nmax=9, resn="LIG"):
    b = _Builder(rng, resn)
    b.attach(rng.choice(["C.3", "phenyl", "carbonyl", "N.4", "cyclohexyl", "C.3"]))
    for _ in range(rng.randint(nmin, nmax)):
        if not b.free:
            break
        b.attach(rng.choice(GROUPS))
    # close most remaining valences with hydrogens but never leave an O.3/N.3 hypervalent
    mol = b.finish()
    if rng.random() < 0.2:
        # a salt: one or two counter-ion atoms without any bond record (halides)
        c = np.array([a["xyz"] for a in mol["atoms"]]).mean(axis=0)
        for k in range(rng.randint(1, 2)):
            t = rng.choice(["Cl", "Br", "F", "I"])
            nm = (t.upper() + "X" + str(k))[:4]
            mol["atoms"].append(dict(mol["atoms"][0], type=t, name=nm,
                                     xyz=tuple(float(v) for v in c + np.array([6.0 + 3 * k, 5.0, 4.0]))))
    return mol


def wl_classes(mol, rounds=None):
    """Colour refinement on (type, multiset of (bond type, neighbour colour)): classes are unions of automorphism
    orbits, so 'charges exchanged only between symmetry-equivalent atoms' implies equal charge multisets per class."""
    n = len(mol["atoms"])
    nb = [[] for _ in range(n)]
    for i, j, t in mol["bonds"]:
        nb[i].append((t, j))
        nb[j].append((t, i))
    col = [a["type"].lower() for a in mol["atoms"]]
    for _ in range(rounds or n):
        new = [repr((col[i], sorted((t, col[j]) for t, j in nb[i]))) for i in range(n)]
        # compress
        ids = {c: k for k, c in enumerate(sorted(set(new)))}
        new = [str(ids[c]) for c in new]
        if len(set(new)) == len(set(col)):
            col = new
            break
        col = new
    return col
