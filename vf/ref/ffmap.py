"""Independent reference model of force-field parameter resolution: DAT columns + .names XML rules as documented
(docs/source/formats/dat.rst, xml-names.rst), implemented with xml.etree and plain dicts (never pdb2pqr.forcefield).

map[residue name][atom name] = (charge, radius, native residue name, native atom name)
"""
import re
import xml.etree.ElementTree as ET
from functools import lru_cache

from ..common import REPO
from . import topology

DAT = REPO / "pdb2pqr" / "dat"


def parse_dat(text):
    m = {}
    for line in text.splitlines():
        if line.startswith("#"):
            continue
        f = line.split()
        if not f:
            continue
        res, atom, q, r = f[0], f[1], float(f[2]), float(f[3])
        m.setdefault(res, {})[atom] = (q, r, res, atom)
    return m


def apply_names(m, names_text, canonical):
    root = ET.fromstring(names_text)
    for sec in root.findall("residue"):
        pat = (sec.findtext("name") or "").strip()
        use = sec.findtext("useresname")
        rx = re.compile(pat + "$")
        if use is not None:
            use = use.strip()
            for cname in list(canonical):
                mo = rx.match(cname)
                if not mo:
                    continue
                if "$group" in use:
                    src = use.replace("$group", mo.group(1))
                    if src not in m:
                        continue
                else:
                    src = use
                    if src not in m:
                        raise KeyError(src)
                tgt = m.setdefault(cname, {})
                for an, val in list(m[src].items()):
                    tgt[an] = val
        aliases = {}
        for a in sec.findall("atom"):
            aliases[(a.findtext("name") or "").strip()] = (a.findtext("useatomname") or "").strip()
        if not aliases:
            continue
        for rname in list(m):
            if not rx.match(rname):
                continue
            for new, old in aliases.items():
                if old in m[rname]:
                    m[rname][new] = m[rname][old]
    return m


def build(dat_text, names_text):
    return apply_names(parse_dat(dat_text), names_text, topology.canonical_names())


@lru_cache(maxsize=None)
def builtin(ff):
    ff = ff.upper()
    return build((DAT / f"{ff}.DAT").read_text(encoding="utf-8"), (DAT / f"{ff}.names").read_text(encoding="utf-8"))


def lookup(ffmap, resname, atomname):
    r = ffmap.get(resname)
    if r is None:
        return None
    return r.get(atomname)
