"""Independent topology model: own xml.etree parse of AA.xml / NA.xml / PATCHES.xml (never pdb2pqr.definitions).

Gives, for a residue in a given final state, the atom set / bonds / template coordinates the topology defines.
"""
import copy
import re
import xml.etree.ElementTree as ET
from functools import lru_cache

from ..common import REPO

DAT = REPO / "pdb2pqr" / "dat"


class RDef:
    def __init__(self, name):
        self.name = name
        self.atoms = {}      # name -> {"xyz": (x,y,z), "bonds": [names]}
        self.alt = {}        # altname -> name
        self.dihedrals = []

    def copy(self):
        return copy.deepcopy(self)

    def heavy(self):
        return [a for a in self.atoms if not a.startswith("H") and a not in ("N+1", "C-1")]

    def names(self):
        return [a for a in self.atoms if a not in ("N+1", "C-1")]


class PDef:
    def __init__(self, name):
        self.name = name
        self.applyto = ""
        self.newname = ""
        self.add = {}
        self.alt = {}
        self.remove = []
        self.dihedrals = []


def _atoms(node, holder_atoms, holder_alt):
    for a in node.findall("atom"):
        n = a.findtext("name").strip()
        holder_atoms[n] = {"xyz": tuple(float(a.findtext(c)) for c in "xyz"),
                           "bonds": [b.text.strip() for b in a.findall("bond")]}
        for alt in a.findall("altname"):
            holder_alt[alt.text.strip()] = n


@lru_cache(maxsize=None)
def load():
    res = {}
    for f in ("AA.xml", "NA.xml"):
        for r in ET.parse(DAT / f).getroot().findall("residue"):
            d = RDef(r.findtext("name").strip())
            _atoms(r, d.atoms, d.alt)
            d.dihedrals = [x.text.strip() for x in r.findall("dihedral")]
            res[d.name] = d
    patches = {}
    order = []
    for p in ET.parse(DAT / "PATCHES.xml").getroot().findall("patch"):
        pd = PDef(p.findtext("name").strip())
        pd.applyto = (p.findtext("applyto") or "").strip()
        pd.newname = (p.findtext("newname") or "").strip()
        for add in p.findall("add"):
            _atoms(add, pd.add, pd.alt)
            pd.dihedrals += [x.text.strip() for x in add.findall("dihedral")]
        pd.remove = [x.text.strip() for x in p.findall("remove")]
        patches[pd.name] = pd
        order.append(pd)
    return res, patches, order


def apply_patch(rdef, patch):
    """Documented patch semantics: add atoms (with reciprocal bonds), then remove atoms (and bonds to them)."""
    d = rdef.copy()
    for n, a in patch.add.items():
        d.atoms[n] = copy.deepcopy(a)
        for b in a["bonds"]:
            if b in d.atoms and n not in d.atoms[b]["bonds"]:
                d.atoms[b]["bonds"].append(n)
    for n in patch.remove:
        if n in d.atoms:
            for b in d.atoms[n]["bonds"]:
                if b in d.atoms and n in d.atoms[b]["bonds"]:
                    d.atoms[b]["bonds"].remove(n)
            del d.atoms[n]
    d.alt.update(patch.alt)
    d.dihedrals = d.dihedrals + patch.dihedrals
    return d


@lru_cache(maxsize=None)
def canonical_names():
    """Residue names the topology defines, incl. patched variants (what the .names regexes run over)."""
    res, patches, order = load()
    names = list(res)
    for p in order:
        if p.newname:
            rx = re.compile(p.applyto)
            for n in list(names):
                if rx.match(n):
                    nn = p.newname.replace("*", n)
                    if nn not in names:
                        names.append(nn)
        if p.applyto in names and p.name not in names:
            names.append(p.name)
    return tuple(names)


AMINO = ("ALA", "ARG", "ASN", "ASP", "CYS", "GLN", "GLU", "GLY", "HIS", "ILE", "LEU", "LYS", "MET", "PHE", "PRO",
         "SER", "THR", "TRP", "TYR", "VAL")
# input residue names accepted as protonation variants -> (base residue, patches implied by the name)
VARIANTS = {
    "ASH": ("ASP", ["ASH"]), "GLH": ("GLU", ["GLH"]), "CYM": ("CYS", ["CYM"]), "CYX": ("CYS", ["CYX"]),
    "LYN": ("LYS", ["LYN"]), "TYM": ("TYR", ["TYM"]), "AR0": ("ARG", ["AR0"]),
    "HIP": ("HIS", ["HIP"]), "HID": ("HIS", ["HID"]), "HIE": ("HIS", ["HIE"]),
    "HSP": ("HIS", ["HSP"]), "HSD": ("HIS", ["HSD"]), "HSE": ("HIS", ["HSE"]),
}
NUCLEIC_BASE = {"RA": "RA", "RC": "RC", "RG": "RG", "RU": "RU", "DT": "DT", "DA": "RA", "DC": "RC", "DG": "RG",
                "A": "RA", "C": "RC", "G": "RG", "U": "RU"}


def base_of(resname):
    if resname in AMINO:
        return resname
    if resname in VARIANTS:
        return VARIANTS[resname][0]
    return None


def expected_def(base, patch_names):
    """Template of `base` with the listed patches applied in order."""
    res, patches, _ = load()
    d = res[base].copy()
    for p in patch_names:
        d = apply_patch(d, patches[p])
    return d


def template_coords(base):
    res, _, _ = load()
    return {n: a["xyz"] for n, a in res[base].atoms.items()}
