"""Independent rigid-body reference maths (numpy): Kabsch/SVD fit, Rodrigues rotation, dihedral."""
import math

import numpy as np


def kabsch(P, Q):
    """Proper rotation R and translation t minimising sum |R P_i + t - Q_i|^2."""
    P = np.asarray(P, float)
    Q = np.asarray(Q, float)
    Pc, Qc = P.mean(0), Q.mean(0)
    H = (P - Pc).T @ (Q - Qc)
    U, _S, Vt = np.linalg.svd(H)
    d = np.sign(np.linalg.det(Vt.T @ U.T)) or 1.0
    R = Vt.T @ np.diag([1.0, 1.0, d]) @ U.T
    return R, Qc - R @ Pc


def kabsch_image(template_pts, target_pts, template_x):
    R, t = kabsch(template_pts, target_pts)
    return R @ np.asarray(template_x, float) + t


def residuals(template_pts, target_pts):
    R, t = kabsch(template_pts, target_pts)
    P = np.asarray(template_pts, float)
    Q = np.asarray(target_pts, float)
    return np.linalg.norm((P @ R.T + t) - Q, axis=1)


def rodrigues(axis, angle_deg):
    k = np.asarray(axis, float)
    k = k / np.linalg.norm(k)
    a = math.radians(angle_deg)
    K = np.array([[0, -k[2], k[1]], [k[2], 0, -k[0]], [-k[1], k[0], 0]])
    return np.eye(3) + math.sin(a) * K + (1 - math.cos(a)) * (K @ K)


def dihedral(p0, p1, p2, p3):
    """IUPAC signed torsion in degrees (-180, 180]."""
    p0, p1, p2, p3 = (np.asarray(p, float) for p in (p0, p1, p2, p3))
    b0 = p0 - p1
    b1 = p2 - p1
    b2 = p3 - p2
    b1n = b1 / np.linalg.norm(b1)
    v = b0 - np.dot(b0, b1n) * b1n
    w = b2 - np.dot(b2, b1n) * b1n
    x = np.dot(v, w)
    y = np.dot(np.cross(b1n, v), w)
    return math.degrees(math.atan2(y, x))


def angdiff(a, b):
    """Smallest absolute difference between two angles in degrees."""
    d = (a - b) % 360.0
    return min(d, 360.0 - d)


def random_rotation(rng):
    """Uniform random proper rotation from a python random.Random."""
    q = np.array([rng.gauss(0, 1) for _ in range(4)])
    q /= np.linalg.norm(q)
    w, x, y, z = q
    return np.array([
        [1 - 2 * (y * y + z * z), 2 * (x * y - z * w), 2 * (x * z + y * w)],
        [2 * (x * y + z * w), 1 - 2 * (x * x + z * z), 2 * (y * z - x * w)],
        [2 * (x * z - y * w), 2 * (y * z + x * w), 1 - 2 * (x * x + y * y)],
    ])


def triangle_area(a, b, c):
    a, b, c = (np.asarray(p, float) for p in (a, b, c))
    return 0.5 * np.linalg.norm(np.cross(b - a, c - a))
