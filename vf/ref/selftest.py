"""Unit checks of the reference models against facts that do not depend on pdb2pqr code."""
import math

import numpy as np

from . import rigid, topology


def main():
    bad = []
    # rigid: kabsch recovers a known motion; dihedral of a textbook geometry
    import random
    rng = random.Random(0)
    R = rigid.random_rotation(rng)
    if abs(np.linalg.det(R) - 1) > 1e-12:
        bad.append("random_rotation not proper")
    P = np.array([[0, 0, 0], [1.5, 0, 0], [0, 1.2, 0], [0.3, 0.4, 1.0]])
    t = np.array([5.0, -3.0, 2.0])
    R2, t2 = rigid.kabsch(P, P @ R.T + t)
    if np.abs(R2 - R).max() > 1e-10 or np.abs(t2 - t).max() > 1e-9:
        bad.append("kabsch")
    if abs(rigid.dihedral([1, 0, 0], [0, 0, 0], [0, 0, 1], [0, 1, 1]) - 90.0) > 1e-9 and \
            abs(rigid.dihedral([1, 0, 0], [0, 0, 0], [0, 0, 1], [0, 1, 1]) + 90.0) > 1e-9:
        bad.append("dihedral")
    if np.abs(rigid.rodrigues([0, 0, 1], 90) @ np.array([1, 0, 0]) - np.array([0, 1, 0])).max() > 1e-12:
        bad.append("rodrigues")
    # topology: 20 amino acids + WAT + 5 nucleotides, patches parse
    res, patches, _ = topology.load()
    if len(res) != 26 or "NTERM" not in patches or "OXT" not in patches["CTERM"].add:
        bad.append("topology load")
    if len(topology.canonical_names()) < 150:
        bad.append("canonical names")
    print("reference-model self-test:", "FAILED " + ", ".join(bad) if bad else "ok")
    return 1 if bad else 0
