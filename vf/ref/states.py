"""Independent model of a residue's final protonation / terminal state, its force-field lookup name, the atom set
its topology defines for that state, and its formal charge.

Inputs are the generator's ground truth (input residue name, base residue, chain position), the options of the
run, geometric disulfide truth and (for titration runs) the expected titration patches - never pdb2pqr's own
`ffname`, `patches`, `is_n_term` ... attributes.
"""
from . import topology as topo

SIDE_CHARGE = {"ARG": 1, "AR0": 0, "LYS": 1, "LYN": 0, "HIP": 1, "HID": 0, "HIE": 0, "ASP": -1, "ASH": 0, "GLU": -1,
               "GLH": 0, "CYS": 0, "CYX": 0, "CYM": -1, "TYR": 0, "TYM": -1}
HIS_NAMES = ("HIS", "HID", "HIE", "HIP", "HSD", "HSE", "HSP")


class Opts:
    def __init__(self, argv):
        self.neutraln = "--neutraln" in argv
        self.neutralc = "--neutralc" in argv
        self.assign_only = "--assign-only" in argv
        self.clean = "--clean" in argv
        self.noopt = "--noopt" in argv or self.assign_only or self.clean
        self.nodebump = "--nodebump" in argv or self.assign_only or self.clean
        self.adds_atoms = not (self.assign_only or self.clean)
        self.drop_water = "--drop-water" in argv
        self.whitespace = "--whitespace" in argv
        self.keep_chain = "--keep-chain" in argv
        self.ff = "PARSE"
        self.ffout = None
        for a in argv:
            if a.startswith("--ff="):
                self.ff = a[5:].upper()
            if a.startswith("--ffout="):
                self.ffout = a[8:].upper()
            if a.startswith("--userff"):
                self.ff = "USER"


def side_state(tr, out_names, ss, titr=()):
    """Side-chain state name of an amino-acid residue."""
    resn, base = tr["resn"], tr["base"]
    if base == "ASP":
        return "ASH" if resn == "ASH" or "ASH" in titr else "ASP"
    if base == "GLU":
        return "GLH" if resn == "GLH" or "GLH" in titr else "GLU"
    if base == "CYS":
        if ss or resn == "CYX":
            return "CYX"
        if resn == "CYM" or "CYM" in titr:
            return "CYM"
        if "HG" not in out_names:
            return "CYX"
        return "CYS"
    if base == "HIS":
        d, e = "HD1" in out_names, "HE2" in out_names
        if d and e:
            return "HIP"
        if d:
            return "HID"
        if e:
            return "HIE"
        return None
    if base == "LYS":
        return "LYN" if resn == "LYN" or "LYN" in titr else "LYS"
    if base == "TYR":
        return "TYM" if resn == "TYM" or "TYM" in titr else "TYR"
    if base == "ARG":
        return "AR0" if resn == "AR0" or "AR0" in titr else "ARG"
    return base


def nterm_neutral(tr, opts, titr=()):
    return opts.neutraln or tr["base"] == "PRO" or "NEUTRAL-NTERM" in titr


def cterm_neutral(tr, opts, titr=()):
    return opts.neutralc or "NEUTRAL-CTERM" in titr


def ff_name(tr, out_names, opts, ss=False, titr=()):
    """Force-field lookup name for the residue in its final state (None = no valid state)."""
    kind = tr["kind"]
    if kind == "wat":
        return "WAT"
    if kind == "het":
        return tr["resn"]
    pos = "I" if tr.get("cyclic") else tr["pos"]
    if kind == "na":
        base = topo.NUCLEIC_BASE[tr["resn"]]
        if base in ("DT", "RU"):
            name = base
        else:
            name = ("R" if "O2'" in out_names else "D") + base[1]
        if pos in ("N", "NC"):
            name += "5"
        if pos in ("C", "NC"):
            name += "3"
        return name
    st = side_state(tr, out_names, ss, titr)
    if st is None:
        return None
    if pos in ("N", "NC"):
        if tr["base"] == "PRO":
            return "N" + st
        return ("NEUTRAL-N" if nterm_neutral(tr, opts, titr) else "N") + st
    if pos == "C":
        return ("NEUTRAL-C" if cterm_neutral(tr, opts, titr) else "C") + st
    return st


def formal_charge(tr, out_names, opts, ss=False, titr=()):
    """Formal charge of the residue's final state (amino acids), by the chemistry the property states."""
    if tr["kind"] != "aa":
        return None
    st = side_state(tr, out_names, ss, titr)
    if st is None:
        return None
    q = SIDE_CHARGE.get(st, 0)
    pos = "I" if tr.get("cyclic") else tr["pos"]
    if pos in ("N", "NC"):
        # charged N-terminus carries three (PRO: two) amine hydrogens; neutral one fewer
        neutral = (opts.neutraln or "NEUTRAL-NTERM" in titr) and tr["base"] != "PRO"
        q += 0 if neutral else 1
    if pos == "C":
        q += 0 if cterm_neutral(tr, opts, titr) else -1
    return q


def patches_for(tr, opts, ss=False, titr=()):
    """Ordered patch list that turns the base template into the topology of the final state."""
    p = []
    kind = tr["kind"]
    pos = "I" if tr.get("cyclic") else tr["pos"]
    if kind == "aa":
        if tr["resn"] in topo.VARIANTS:
            p += topo.VARIANTS[tr["resn"]][1]
        if pos in ("N", "NC"):
            p.append("NEUTRAL-NTERM" if nterm_neutral(tr, opts, titr) else "NTERM")
        if pos in ("C", "NC"):
            p.append("NEUTRAL-CTERM" if cterm_neutral(tr, opts, titr) else "CTERM")
        if ss and "CYX" not in p:
            p.append("CYX")
        for t in titr:
            if t not in p and t not in ("NEUTRAL-NTERM", "NEUTRAL-CTERM"):
                p.append(t)
    return p


def expected_atoms(tr, out_names, opts, ss=False, titr=()):
    """(required, optional-one-of groups) atom names the topology defines for the final state.

    Returns (must: set, choose: list of (set_of_alternatives, how_many_present)).
    """
    kind = tr["kind"]
    res, patches, _ = topo.load()
    pos = "I" if tr.get("cyclic") else tr["pos"]
    if kind == "wat":
        return {"O", "H1", "H2"}, []
    if kind == "na":
        base = topo.NUCLEIC_BASE[tr["resn"]]
        d = res[base].copy()
        dna = base not in ("DT", "RU") and "O2'" not in out_names
        if dna:
            d = topo.apply_patch(d, patches["D" + base[1]])
        if pos in ("N", "NC"):
            d = topo.apply_patch(d, patches["5TERM"])
        if pos in ("C", "NC"):
            d = topo.apply_patch(d, patches["3TERM"])
        return set(d.names()), []
    if kind != "aa":
        return None, []
    d = topo.expected_def(tr["base"], patches_for(tr, opts, ss, titr))
    must = set(d.names())
    choose = []
    st = side_state(tr, out_names, ss, titr)
    if tr["base"] == "ASP" and st == "ASH":
        must -= {"HD1", "HD2"}
        choose.append(({"HD1", "HD2"}, 1))
    if tr["base"] == "GLU" and st == "GLH":
        must -= {"HE1", "HE2"}
        choose.append(({"HE1", "HE2"}, 1))
    if tr["base"] == "HIS":
        declared = tr["resn"]
        if declared in ("HIS",) and "HIP" not in titr and not opts.assign_only:
            must -= {"HD1", "HE2"}
            choose.append(({"HD1", "HE2"}, 1))
    if tr["base"] == "PRO" and pos in ("N", "NC"):
        # the neutral N-terminus patch supplies H and H2; the amide H is not part of a proline
        pass
    return must, choose
