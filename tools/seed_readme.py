#!/venv/bin/python
"""Regenerates seeded/README.md from the meta.json files."""
import json
from pathlib import Path
root = Path("/verif/seeded")
rows = []
for d in sorted(p for p in root.iterdir() if p.is_dir()):
    mp = d / "meta.json"
    if not mp.exists():
        continue
    m = json.loads(mp.read_text())
    log = m.get("confirmed", {}).get("eval_log", [])
    suite = next((ln for ln in log if ln.startswith("suite with patch")), "")
    demo = [ln for ln in log if ln.startswith("demo")]
    rows.append((d.name, m["property"], m["needs_to_manifest"], m["caught_by"], m.get("remarks", ""),
                 "; ".join(demo), suite))
out = ["# Seeded changes", "",
       "Each directory holds one change written by a fresh sub-agent that saw only the property text and a scratch",
       "worktree of the repository (never /verif): `patch.diff`, the agent's `demo.py` and `notes.md`, our `eval.log`",
       "(scratch worktree of /repo HEAD: demo before/after, our checks against the patched tree, repository suite) and",
       "`meta.json`.  None of them is ever applied to /repo outside a scratch worktree.  `REJECTED.md` lists deliveries",
       "that were not kept.  Regenerate this file with `tools/seed_readme.py`; re-confirm everything with",
       "`tools/seed_all.sh`.", "",
       "| Seed | Property | Needs, in order to manifest | Caught by | Notes |", "|---|---|---|---|---|"]
for name, prop, needs, caught, remarks, demo, suite in rows:
    out.append(f"| `{name}` | {prop} | {needs} | {caught} | {remarks} |")
out += ["", "## Confirmation lines", ""]
for name, prop, needs, caught, remarks, demo, suite in rows:
    out.append(f"* `{name}`: {demo}; {suite or 'suite: see eval.log'}")
(root / "README.md").write_text("\n".join(out) + "\n")
print("wrote", root / "README.md", len(rows), "seeds")
