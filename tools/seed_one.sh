#!/bin/bash
# usage: tools/seed_one.sh <seed name>   - full confirmation of one seeded change (repository suite included)
cd /verif
n=$1; d=seeded/$n
prop=$(/venv/bin/python -c "import json;print(json.load(open('$d/meta.json'))['property'])" 2>/dev/null) || exit 0
extra=$(/venv/bin/python -c "import json;print(' '.join(json.load(open('$d/meta.json')).get('also_checks',[])))" 2>/dev/null)
mkdir -p /var/tmp/seedsrc/$n /var/tmp/suite; cp $d/patch.diff $d/demo.py $d/notes.md /var/tmp/seedsrc/$n/ 2>/dev/null
SUITE=1 tools/seed_eval.sh /var/tmp/seedsrc/$n $n $prop $extra > /var/tmp/suite/final-$n.out 2>&1
/venv/bin/python - "$n" <<'PY'
import json,sys
from pathlib import Path
n=sys.argv[1]; d=Path('/verif/seeded')/n
m=json.load(open(d/'meta.json')); m['confirmed']['eval_log']=(d/'eval.log').read_text().strip().splitlines()
json.dump(m, open(d/'meta.json','w'), indent=1)
PY
rm -rf /var/tmp/seedsrc/$n
echo "$n: $(grep -E 'demo on|demo with|suite with|^RESULT|^VIOLATION' $d/eval.log | cut -c1-90 | tr '\n' '|')"
