#!/venv/bin/python
"""usage: seed_meta.py <name> <property> "<needs>" "<caught_by>" ["<missed_by/remarks>"]  -> seeded/<name>/meta.json"""
import json, sys, re
from pathlib import Path
name, prop, needs, caught = sys.argv[1:5]
remarks = sys.argv[5] if len(sys.argv) > 5 else ""
d = Path("/verif/seeded") / name
log = (d / "eval.log").read_text() if (d / "eval.log").exists() else ""
meta = {"property": prop, "origin": "fresh sub-agent given only the property text and a scratch worktree of /repo",
        "needs_to_manifest": needs, "caught_by": caught, "remarks": remarks,
        "confirmed": {"what_was_run": "tools/seed_eval.sh (scratch worktree of /repo HEAD: demo before/after the patch, our "
                      "checks with VERIF_REPO pointing at the patched worktree, repository suite vs the 151 baseline tests)",
                      "eval_log": log.strip().splitlines()}}
(d / "meta.json").write_text(json.dumps(meta, indent=1) + "\n")
print("wrote", d / "meta.json")
