#!/venv/bin/python
"""Regenerate MANIFEST.json from the table below (keeps every entry uniform and the file schema-valid)."""
import json
import sys
from pathlib import Path

VERIF = Path(__file__).resolve().parent.parent
sys.path.insert(0, str(VERIF))

CHECKS = {
    # id: (level, technique, level text, level note, design ref)
    "C15": ("exploration", "reference-model monitor (numpy SVD/Rodrigues) on direct-drive calls of the real routines",
            "Every call of find_coordinates / qchichange / set_dihedral_angle / rotate_tetrahedral made by the "
            "workload is compared with an independent numpy reference at the property's own tolerances (1e-6 A, "
            "0.05 deg); held on the calls observed, which span rotation/translation classes and every residue x "
            "position x dihedral cell listed in the evidence.",
            "Trusted: numpy/LAPACK SVD, the harness' Rodrigues and dihedral formulas; degenerate (near-collinear) "
            "anchor sets are excluded as the property states.", "DESIGN.md#c15"),
    "C14": ("exploration", "shadow-model stress of the real cell map + in-vivo brute-force monitor on every neighbour query",
            "The real Cells object is driven through random add/remove/move/query histories (boundary, negative, "
            "huge coordinates; sizes 2 and 5) against a shadow set and brute force, and every get_near_cells / "
            "find_nearby_atoms call made inside whole-pipeline runs is compared with an all-atoms search over the "
            "atoms residues own at that moment; misses and ghosts are classified by registration state and atom role. "
            "A third kind replays the debumper's scan on returned biomolecules: every torsion turned in 10 degree steps "
            "through Debump.set_dihedral_angle, the moved atoms looked up from every neighbour after each step.",
            "Trusted: brute-force distance search; the classification of an inconsistent atom (unregistered / stale / "
            "removed-still-registered) that keys any finding. The optimisation-phase bookkeeping defects found with "
            "it were repaired in /repo (known_findings.json, fixed list); no C14 finding is open.", "DESIGN.md#c14"),
    "C08": ("exploration", "round-trip monitor: real formatter/print_pqr output re-read by independent column and token readers and by io.read_pqr",
            "Every record written by the real Atom.get_pqr_string + main.print_pqr (4 flag combinations) and by "
            "whole runs on hostile numberings is read back by an independent fixed-column reader, a plain token "
            "reader and pdb2pqr's own reader and compared field by field at the property's tolerances; mismatches "
            "are keyed by the one hostile feature the record carries and the field affected.",
            "Trusted: the documented column layout (pqr.rst). Known findings: the six width/glue mechanisms in "
            "known_findings.json; a mismatch in any other field, layout or feature is a violation.", "DESIGN.md#c08"),
    "C17": ("exploration", "reference-model monitor (independent bounding box + grid arithmetic) and metamorphic header injection on the real Psize; text oracle on real --apbs-input output",
            "Psize.run_psize on generated PQR files (both layouts, headers of every shape, extents to 8000 A, varied "
            "sizing parameters) is compared with an independent bounding-box model: centre, enclosure of every atom "
            "sphere by both boxes, fine <= coarse, 32k+1 >= 33, printed memory = 200*nx*ny*nz/2^20, result unchanged "
            "by header lines; .in files from real runs must name the PQR just written.",
            "Trusted: atom sphere = centre +- radius; coordinates fit the PQR columns; cfac > 1, fadd > 0.",
            "DESIGN.md#c17"),
    "C18": ("exploration", "differential monitor: generator-known DX truth vs independent cube reader around the real read_dx/write_cube/dx2cube",
            "Random grids (shapes incl. every value count mod 6, skewed axes, extreme magnitudes, 1-6 values per DX "
            "line, APBS trailer) are converted by the real code (API and dx2cube entry point) and the cube is parsed "
            "by an independent reader: signed counts, origin/axes at %.6f, one atom line per PQR atom in order, "
            "exactly nx*ny*nz values equal to the DX tokens at %.5E in the same order.",
            "Trusted: the harness' DX writer follows the APBS layout; printed precision = the writer's own formats.",
            "DESIGN.md#c18"),
    "C16": ("exploration", "postcondition and metamorphic monitors on the real Mol2Molecule (conservation, renaming, permutation up to colour-refinement classes, rigid motion, radius table) + differential whole runs with/without --ligand",
            "Every molecule (local MOL2 files and random valence-legal molecules) is parameterised by the real code "
            "as-is and after renaming / permuting / moving; conservation is checked against the code's own formal "
            "charges at 1e-9*n, radii against tables copied from the cited papers. Complexes are run with and "
            "without --ligand: ligand lines must be the ligand's atoms once each with the ligand's parameters, and "
            "no other written atom may change.",
            "Trusted: colour refinement gives classes that contain the true symmetry orbits (so the permutation "
            "oracle is necessary, never stricter); radius tables as hard-coded in the harness.", "DESIGN.md#c16"),
    "C07": ("exploration", "reference-model monitor: independent fixed-column reader vs the atoms held by the Biomolecule at a hook on main.setup_molecule, inside real --clean runs",
            "Each generated PDB text (1-3 random text-level mutations of a generated structure) is run through the real "
            "main_driver --clean; the identities held right after construction are captured by wrapping "
            "main.setup_molecule (fallback: the --clean PQR) and compared as multisets with an independent column "
            "read of the same bytes (first model, first alt-loc per identity, waters iff no --drop-water).",
            "Trusted: the wwPDB column layout; alternate atom names normalised through an own parse of AA/NA.xml; "
            "coordinate records are well-formed and residues contiguous by construction.", "DESIGN.md#c07"),
    "C01": ("exploration", "reference-model monitor: independent DAT/.names interpreter vs the real Forcefield table, every in-vivo get_params call, and every atom of whole runs under an independently derived state name",
            "Three monitors on real executions: the complete (residue, atom) table of each built-in and random user "
            "force field is compared entry by entry with an independent interpreter of the documented file formats; "
            "every Forcefield.get_params call inside a run is compared with that model; and every atom returned / "
            "written is compared with the model row looked up under a state name derived from generator ground truth "
            "and the atoms present (never residue.ffname) - no row means absent from the PQR and reported unassigned "
            "(also for hetero groups beside a --ligand that neither the force field nor the MOL2 file knows).",
            "Trusted: the harness interpreter of dat.rst / xml-names.rst semantics; generator ground truth for chain "
            "ends; the parameter files themselves are the specification (an edited .DAT is a different force field, "
            "not a violation); a (residue, atom) pair listed twice in a .DAT has the values of its last line.", "DESIGN.md#c01"),
    "C02": ("exploration", "state-model monitor: per-residue charge sums of whole runs vs the formal charge of an independently derived final state at the generator's true chain position",
            "For every residue of every successful run whose atoms all received parameters, the sum of assigned "
            "charges (object values and PQR column) is compared at 1e-3 with the formal charge of the state derived "
            "from generator truth + atoms present; strands against -1 per phosphate, waters against 0, the PQR total "
            "against the integer sum. Workloads enumerate input name x position x force field and stress chain "
            "topology (ids, numbering, hidden ends, cyclic threshold, single-residue chains, mixes).",
            "Trusted: generator ground truth for chain ends; the formal-charge table in vf/ref/states.py; residues "
            "with an unassigned atom are outside the claim (counted in the evidence).", "DESIGN.md#c02"),
    "C12": ("fault_enumeration", "fault injection (natural faults, stage-function faults, sys.monitoring LINE failpoints) with an audit-hook + before/after monitor on the output path; success-side cell enumeration",
            "Success side: every (force field x standard residue/nucleotide x position) cell is run in a minimal "
            "structure of its own, so a rejection is attributed by construction. Failure side: ~28 natural faults, "
            "every stage function between argument checking and print_pqr made to raise six exception types on its "
            "k-th call, and random statement-level failpoints; after every failed run the output path must be "
            "untouched (absent stays absent, sentinel keeps bytes+mtime) and no write-open of it may have been "
            "observed before print_pqr; every normal return must leave a complete file.",
            "Trusted: sys.addaudithook sees every open(); the stage boundary is the entry of main.print_pqr; faults "
            "during the final write are not injected (outside the property's stage list). Known findings: three "
            "force-field data gaps on the success side.", "DESIGN.md#c12"),
    "C13": ("exploration", "geometric ground-truth monitor: generator-placed SG-SG distances (recomputed from the file) vs the bridge state of the returned biomolecule and the PQR lines",
            "Each run places two cysteine peptides at a chosen SG-SG distance (dense at 2.5 +- 0.002..0.1) under chain "
            "id / order / numbering / decoy variations; both partners of an unambiguous pair inside the limit must "
            "lack HG, reference each other and carry bridged-cysteine parameters; cysteines with no sulfur inside "
            "the limit must keep HG and free-cysteine parameters.",
            "Trusted: distances recomputed from the 3-decimal file coordinates; clusters of three sulfurs are outside "
            "the property's premise and only counted.", "DESIGN.md#c13"),
    "C11": ("exploration", "history checker: PQR bytes of in-process run histories (forced A-B-A and A-fail-A) and of fresh processes under several hash seeds must equal a fresh-process reference; module-state fingerprint as witness material",
            "Every configuration of a random pool (structures x options incl. propka, user force fields, failing "
            "inputs) is run in new interpreters under PYTHONHASHSEED 0/1/2/random and inside in-process histories of "
            "8-24 runs; every successful step must reproduce the fresh-process digest byte for byte (fresh-process "
            "configurations include residues in which several rebuilt atoms bump at once, six hash seeds). A deep "
            "fingerprint of pdb2pqr module/class state is taken around every run and reported, but never decides.",
            "Trusted: sha1 of the PQR bytes; the observable is the PQR file only. Histories explore sequences of "
            "length <= 24 over pools of <= 5 configurations per case.", "DESIGN.md#c11"),
    "C09": ("exploration", "metamorphic monitor over recorded outputs of pairs of real runs differing in one option (random walks on the option lattice; drop-water vs stripped input; neutral termini vs charged)",
            "Each step of a random walk flips one formatting/naming option and the new PQR is compared with its "
            "predecessor on the token text of x/y/z/charge/radius, atom order and (except for ffout) names; "
            "--drop-water output is compared byte for byte with the run on the water-stripped file; neutral-terminus "
            "runs are compared residue by residue with the charged run and the total shift with the termini that "
            "were actually neutralised. Walks also run on --ligand complexes (ligand not the last residue); "
            "drop-water pairs include nucleic strands under both RNA naming styles.",
            "Trusted: the harness' PQR readers (columns / tokens). Runs that fail are C12's subject and only counted "
            "here.", "DESIGN.md#c09"),
    "C10": ("exploration", "differential execution monitor: one generated structure encoded as PDB and (by an independent writer) as mmCIF, both through the real main_driver, written atoms compared as multisets",
            "Every structure (with alt-locs, insertion codes, formal charges, 4-character names, several models, "
            "negative coordinates, wwPDB-style label ids that differ from auth ids, HETATM-flagged standard residues "
            "inside polymer chains, both missing-value marker conventions) is run twice; the multisets of (resName, resSeq, atom, x, y, z, charge, radius) token text "
            "must be equal and the mmCIF-flavoured file must carry its trailer.",
            "Trusted: the harness' mmCIF writer (atom_site loop in wwPDB layout + header categories copied from "
            "tests/data/1FAS.cif). Only the installed mmcif-pdbx 2.1.0 is exercised.", "DESIGN.md#c10"),
    "C06": ("exploration", "stubbed-source monitor: main.run_propka replaced by a harness pKa table (PROPKA row schema); outcome per group vs a truth table over (pH<pKa, force-field support from the independent model); monotonicity checker over pH sweeps (stub and real PROPKA)",
            "All 276 reachable (group, position, force field, side-of-pKa) cells are driven with pKa values random, "
            "equal to and 1e-9 around the pH; each group's final state (read off the atoms of the result) must be the "
            "titrated state iff the pH is on its side of the pKa and the independent force-field model has a row for "
            "every atom of that state at that position, otherwise the default state plus a warning record emitted "
            "during the titration stage; sweeps require a non-increasing total and no disappearing residue. Further "
            "families: free cysteines 2.55-3.6 A from another sulfur, residues differing only by insertion code, chain "
            "ends hidden inside one chain id with the real pKa source.",
            "Trusted: the stub's row schema (copied from a real PROPKA 3.5.1 run); support = complete rows in the "
            "independent force-field model. Known finding: terminal-group rows never reach the titration stage.",
            "DESIGN.md#c06"),
    "C03": ("exploration", "conservation checker over whole runs (input heavy atoms = kept + reported deletions; final model = written + unassigned; written atom-name set = independent topology set of the derived final state) with an event log on Residue.remove_atom and an optimisation-branch counter",
            "Every successful run of the workload (all residue names x positions x force fields, dense/hydrated/damaged "
            "structures, extra atoms, pre-existing hydrogens, option mixes, pKa-driven states) is checked residue by "
            "residue: each input heavy atom must be in the final model or named in a WARNING record; PQR lines must be "
            "exactly the model atoms not reported unassigned; fully parameterised residues must carry exactly the atom "
            "set our own parse of the topology XML gives for the state derived from generator truth; no *FLIP / LP* "
            "names, no duplicates. The evidence lists which optimisation methods actually ran.",
            "Trusted: generator ground truth for chain positions; own XML topology parse and patch semantics; a "
            "deletion counts as reported when a WARNING record names atom and residue number.", "DESIGN.md#c03"),
    "C04": ("exploration", "end-state monitor (input heavy atoms vs independent column read; swap-aware internal-geometry check) + pre/post contract on every Debump.set_dihedral_angle call in vivo and in direct drive (moved set = bond-graph component beyond the pivot)",
            "Every input heavy atom of every successful run is compared with the input: backbone, cap, nucleic and water "
            "atoms must not move, side-chain atoms only with all bond lengths / 1-3 distances among input heavy atoms "
            "unchanged (label exchange of the two carboxylic oxygens recognised), nothing under the no-move options; "
            "every torsion change (thousands in vivo, every residue x position x dihedral directly) must move exactly the "
            "atoms connected beyond the pivot bond, rigidly.",
            "Trusted: generator ground truth for residue identity; own topology parse for bonded / 1-3 pairs; the "
            "residue's live bond graph for connectivity.", "DESIGN.md#c04"),
    "C05": ("exploration", "in-vivo placement monitors (find_coordinates = Kabsch image; anchor identity against own topology parse; rigid torsion / tetrahedral rotation contracts) + end-state shadow invariance of each added atom's bonded neighbourhood",
            "Every template fit of every run is compared with the SVD fit and, for hydrogen addition and heavy-atom "
            "repair, the template point and each anchor are checked to be the topology's coordinates of the right "
            "named atoms paired with those atoms' positions; every added atom's distances to its parent and the "
            "parent's neighbours at placement time are compared with the end state (2e-3 A), its parent bond length with "
            "the template within the fit's own residual, nearest heavy atom = parent, XH3 groups threefold, no "
            "coincident atoms. The definitions built by the real loader are monitored as well: template X-H 0.90-1.15 A, "
            "geminal H-X-H >= 100 deg, heavy bonds 1.15-1.90 A, every torsion a bonded path whose axis is no ring bond.",
            "Trusted: numpy SVD; own topology parse; tolerances 0.03 A + fit residual (fit-placed atoms), 0.15 A sanity "
            "bound for sibling-completed atoms, 0.06 A for water O-H; the plausibility envelope of the shipped templates "
            "(a data slip would otherwise become 'what the template prescribes').", "DESIGN.md#c05"),
}

NOT_APPLICABLE = {}


def main():
    props = [json.loads(l)["id"] for l in (VERIF / "properties.jsonl").read_text().splitlines() if l.strip()]
    checks = []
    for cid in props:
        if cid not in CHECKS:
            continue
        level, tech, text, note, ref = CHECKS[cid]
        checks.append({
            "property_id": cid,
            "quick_cmd": f"/venv/bin/python -m vf.check {cid} --tier quick",
            "thorough_cmd": f"/venv/bin/python -m vf.check {cid} --tier thorough",
            "evidence_file": f"evidence/{cid}.json",
            "replay_cmd_template": f"/venv/bin/python -m vf.check {cid} --replay {{path}}",
            "engine": "vf",
            "level_claimed": {"category": level, "text": text, "design_ref": ref},
            "level_note": note,
            "technique": tech,
        })
    na = [{"property_id": p, "reason": NOT_APPLICABLE.get(p, "check not built yet in this round (planned; see DESIGN.md section 2)")}
          for p in props if p not in CHECKS]
    man = {
        "version": 1,
        "setup_cmd": "/venv/bin/python -m vf.setup",
        "hooks": {
            "guard": "PDB2PQR_VERIF",
            "enable": "no source hooks: monitors wrap module/class attributes of the pdb2pqr imported from /repo's "
                      "working tree (editable install) inside the check's worker processes, which run with "
                      "PDB2PQR_VERIF=1; nothing to rebuild",
            "baseline_off_cmd": "cd /repo && /venv/bin/python -m pytest -ra -q -p no:cacheprovider --timeout=900 "
                                "--continue-on-collection-errors",
            "source_commits": [],
            "add_only": True,
        },
        "engines": [{"name": "vf", "path": "vf/", "serves_properties": [c["property_id"] for c in checks],
                     "kind_free_text": "runtime monitors (wrapped real functions, reference models, event-log "
                                       "checkers, fault injection) driven by generated workloads; python"}],
        "checks": checks,
        "not_applicable": na,
        "notes": "All checks: cwd=/verif, honour VERIF_SEED, exit 0 held / 1 VIOLATION / 2 INCONCLUSIVE. "
                 "Known findings are listed in known_findings.json and printed as KNOWN-FINDING lines.",
    }
    (VERIF / "MANIFEST.json").write_text(json.dumps(man, indent=1) + "\n")
    try:
        import jsonschema
        jsonschema.validate(man, json.load(open("/root/.vp/MANIFEST.schema.json")))
        print("MANIFEST.json valid;", len(checks), "checks,", len(na), "not yet claimed")
    except ImportError:
        print("MANIFEST.json written (jsonschema not importable here)")


if __name__ == "__main__":
    main()
