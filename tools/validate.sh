#!/bin/bash
# validate MANIFEST.json and all evidence files against the schemas
cd /verif && python3-vt - <<'PY'
import json, jsonschema, glob
jsonschema.validate(json.load(open('MANIFEST.json')), json.load(open('/root/.vp/MANIFEST.schema.json')))
for f in sorted(glob.glob('evidence/*.json')):
    jsonschema.validate(json.load(open(f)), json.load(open('/root/.vp/EVIDENCE.schema.json')))
    e=json.load(open(f)); print(f, e['tier'], e['coverage']['verdict'], e['coverage']['evaluations'], e['coverage']['distinct_nontrivial'])
print("schemas ok")
PY
