#!/bin/bash
# Run the repository's own test suite (monitors off) and compare with BASELINE.json's stable_pass set.
# usage: tools/suite.sh [tag]
TAG=${1:-run}
mkdir -p /var/tmp/suite
cd /repo && env -u PDB2PQR_VERIF /venv/bin/python -m pytest -q -p no:cacheprovider --timeout=900 --continue-on-collection-errors --junitxml=/var/tmp/suite/$TAG.xml > /var/tmp/suite/$TAG.log 2>&1
/venv/bin/python - "$TAG" <<'PY'
import json, sys, xml.etree.ElementTree as ET
tag=sys.argv[1]
base=set(json.load(open('/root/.vp/BASELINE.json'))['stable_pass'])
passed=set()
for tc in ET.parse(f'/var/tmp/suite/{tag}.xml').getroot().iter('testcase'):
    if not any(c.tag in ('failure','error','skipped') for c in tc):
        passed.add(f"{tc.get('classname')}::{tc.get('name')}")
missing=sorted(base-passed)
print(f"SUITE {tag}: baseline {len(base)} passed-now {len(passed)} baseline-missing {len(missing)}")
for m in missing[:20]: print("  MISSING", m)
PY
rm -f /var/tmp/suite/$TAG.xml /var/tmp/suite/$TAG.log
