#!/bin/bash
# usage: S=<seed> tools/seed_robust.sh <seed name>
# Robustness of a catch: the seeded change is applied in a scratch worktree and the property's quick check is run with
# another VERIF seed (--seed S).  Prints "<name> seed=S caught|MISSED|inconclusive"; touches nothing under seeded/.
cd /verif
n=$1; d=/verif/seeded/$n; S=${S:-1}
prop=$(/venv/bin/python -c "import json;print(json.load(open('$d/meta.json'))['property'])" 2>/dev/null) || exit 0
extra=$(/venv/bin/python -c "import json;print(' '.join(json.load(open('$d/meta.json')).get('also_checks',[])))" 2>/dev/null)
WT=/var/tmp/seedrob-$n-$$
git -C /repo worktree add --detach -f "$WT" HEAD >/dev/null 2>&1 || { echo "$n worktree failed"; exit 3; }
trap 'git -C /repo worktree remove --force "$WT" >/dev/null 2>&1; rm -rf "$WT"' EXIT
git -C "$WT" apply "$d/patch.diff" 2>/dev/null || git -C "$WT" apply --3way "$d/patch.diff" 2>/dev/null || { echo "$n PATCH DOES NOT APPLY"; exit 4; }
verdict=MISSED
for c in $prop $extra; do
  R=$(VERIF_REPO="$WT" PYTHONPATH="$WT:/verif" /venv/bin/python -m vf.check "$c" --tier quick --seed "$S" 2>&1 | grep -E "^(VIOLATION|RESULT|INCONCLUSIVE)" | head -3)
  if echo "$R" | grep -q "^VIOLATION"; then verdict="caught($c)"; break; fi
  if echo "$R" | grep -q "^INCONCLUSIVE"; then verdict="inconclusive($c)"; fi
done
echo "$n seed=$S $verdict"
