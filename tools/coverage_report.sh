#!/bin/bash
# usage: tools/coverage_report.sh [tier] [check ids...]
# Observation aid (not a registered check): runs the checks with their workers under coverage.py and lists the lines of
# /repo/pdb2pqr that no monitored workload executed - the places this family of technique says nothing about.
# Evidence and replays of such a run go to .work/ (VERIF_COVERAGE makes it a side run).
cd /verif
TIER=${1:-quick}; shift
CHECKS=${*:-C01 C02 C03 C04 C05 C06 C07 C08 C09 C10 C11 C12 C13 C14 C15 C16 C17 C18}
D=/var/tmp/vfcov-$$; mkdir -p $D; trap 'rm -rf $D' EXIT
for c in $CHECKS; do
  VERIF_COVERAGE=$D /venv/bin/python -m vf.check $c --tier $TIER 2>&1 | grep -E "^(RESULT|VIOLATION|INCONCLUSIVE)"
done
cd $D && /venv/bin/python -m coverage combine --quiet --data-file=$D/.coverage $D/cov.* >/dev/null 2>&1
mkdir -p /verif/coverage
/venv/bin/python -m coverage report --data-file=$D/.coverage --include='/repo/pdb2pqr/*' --show-missing > /verif/coverage/$TIER.txt 2>&1
tail -1 /verif/coverage/$TIER.txt
