#!/bin/bash
# Final confirmation pass over every seeded change: full seed_eval (with the repository suite), ${P:-4} at a time.
cd /verif
ls -d seeded/*/ | xargs -n1 basename | xargs -P ${P:-4} -n1 tools/seed_one.sh
tools/seed_readme.py
