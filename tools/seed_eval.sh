#!/bin/bash
# usage: tools/seed_eval.sh <seed dir with patch.diff demo.py> <name under /verif/seeded> <check ids...>
# Confirms a seeded change in scratch worktrees of /repo: patch applies, demo passes on the unchanged tree and fails
# with the patch, the repository suite keeps its 151 baseline tests, and reports which of our checks catch it.
set -u
SRC=$1; NAME=$2; shift 2
OUT=/verif/seeded/$NAME
mkdir -p "$OUT"
cp "$SRC/patch.diff" "$OUT/patch.diff"
cp "$SRC/demo.py" "$OUT/demo.py" 2>/dev/null
cp "$SRC/notes.md" "$OUT/notes.md" 2>/dev/null
WT=/var/tmp/seedeval-$NAME-$$
git -C /repo worktree add --detach -f "$WT" HEAD >/dev/null 2>&1 || { echo "worktree failed"; exit 3; }
trap 'git -C /repo worktree remove --force "$WT" >/dev/null 2>&1; rm -rf "$WT"' EXIT
LOG=$OUT/eval.log
: > "$LOG"
echo "repo HEAD $(git -C /repo rev-parse --short HEAD)" | tee -a "$LOG"
( cd "$WT" && PYTHONPATH="$WT" timeout 300 /venv/bin/python "$OUT/demo.py" >/dev/null 2>&1 ); D0=$?
echo "demo on unchanged tree: exit $D0" | tee -a "$LOG"
if ! git -C "$WT" apply "$OUT/patch.diff" 2>>"$LOG"; then
  # the seed was written against an older HEAD: try a 3-way apply
  git -C "$WT" apply --3way "$OUT/patch.diff" 2>>"$LOG" || { echo "PATCH DOES NOT APPLY" | tee -a "$LOG"; exit 4; }
fi
echo "patch applied: $(git -C "$WT" diff --stat | tail -1)" | tee -a "$LOG"
( cd "$WT" && PYTHONPATH="$WT" timeout 300 /venv/bin/python "$OUT/demo.py" >/dev/null 2>&1 ); D1=$?
echo "demo with patch: exit $D1" | tee -a "$LOG"
TIER=${TIER:-quick}
for c in "$@"; do
  R=$(VERIF_REPO="$WT" PYTHONPATH="$WT:/verif" /venv/bin/python -m vf.check "$c" --tier "$TIER" 2>&1 | grep -E "^(VIOLATION|RESULT|INCONCLUSIVE)|mech=" | head -5)
  echo "--- check $c ($TIER):" | tee -a "$LOG"; echo "$R" | cut -c1-400 | tee -a "$LOG"
done
if [ "${SUITE:-1}" = "1" ]; then
  ( cd "$WT" && env -u PDB2PQR_VERIF PYTHONPATH="$WT" /venv/bin/python -m pytest -q -p no:cacheprovider --timeout=900 --continue-on-collection-errors --junitxml=/var/tmp/suite/seed-$NAME.xml > /var/tmp/suite/seed-$NAME.log 2>&1 )
  /venv/bin/python - "$NAME" <<'PY' | tee -a "$LOG"
import json, sys, xml.etree.ElementTree as ET
tag=sys.argv[1]
base=set(json.load(open('/root/.vp/BASELINE.json'))['stable_pass'])
passed=set()
for tc in ET.parse(f'/var/tmp/suite/seed-{tag}.xml').getroot().iter('testcase'):
    if not any(c.tag in ('failure','error','skipped') for c in tc):
        passed.add(f"{tc.get('classname')}::{tc.get('name')}")
print(f"suite with patch: baseline {len(base)} passed {len(base & passed)} missing {sorted(base-passed)[:5]}")
PY
  rm -f /var/tmp/suite/seed-$NAME.xml /var/tmp/suite/seed-$NAME.log
fi
