#!/bin/bash
# usage: tools/mut.sh <patchfile|-e 'sed-expr' file> -- <check ids...>
# Applies a mutation to a scratch worktree of /repo under /var/tmp and runs the given checks against it.
set -u
WT=/var/tmp/p2p-mut-$$
git -C /repo worktree add --detach -f "$WT" HEAD >/dev/null 2>&1 || { echo "worktree failed"; exit 3; }
# carry uncommitted changes of /repo too
git -C /repo diff HEAD | git -C "$WT" apply --allow-empty 2>/dev/null
trap 'git -C /repo worktree remove --force "$WT" >/dev/null 2>&1; rm -rf "$WT"' EXIT
if [ "$1" = "-e" ]; then
  sed -i -E "$2" "$WT/$3" || exit 3; shift 3
else
  git -C "$WT" apply "$1" || { echo "patch failed"; exit 3; }; shift 1
fi
[ "$1" = "--" ] && shift
git -C "$WT" diff --stat | tail -1
TIER=${TIER:-quick}
rc=0
for c in "$@"; do
  VERIF_REPO="$WT" PYTHONPATH="$WT:/verif" /venv/bin/python -m vf.check "$c" --tier "$TIER" 2>&1 | grep -E "^(VIOLATION|RESULT|INCONCLUSIVE)|mech=" | head -${LINES_MAX:-8}
done
